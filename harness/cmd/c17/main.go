// C17 — image volumes return exactly the voxels that were written.
//
// Runtime monitoring through the REST API of the real server (worker dvidw): every written block carries
// unique contents derived from (seed, write number, block coordinate, voxel index); every read
// (3-D raw boxes at every alignment class, 2-D PNG slices in the three planes, blocks / subvolblocks /
// specificblocks streams, info / metadata extents) is compared with the driver-side image model
// (internal/imgmodel: sparse block map per version, background for unwritten voxels, bounding-box extents).
package main

import (
	"bytes"
	"encoding/json"
	"fmt"
	"math/rand"
	"os"
	"sort"
	"strings"
	"sync"

	"verif/harness/internal/drv"
	"verif/harness/internal/dvc"
	im "verif/harness/internal/imgmodel"
)

func main() { drv.Main("C17", "exploration", run) }

type vtype struct {
	name string
	bpv  int
	kind im.FillKind
}

var vtypes = []vtype{
	{"uint8blk", 1, im.FillRaw},
	{"uint16blk", 2, im.FillRaw},
	{"uint32blk", 4, im.FillRaw},
	{"uint64blk", 8, im.FillRaw},
	{"float32blk", 4, im.FillFloat32},
	{"rgba8blk", 4, im.FillRaw},
}

var bsizes = []im.P3{{16, 16, 16}, {32, 32, 32}, {32, 16, 8}}

func bsName(b im.P3) string { return fmt.Sprintf("%dx%dx%d", b[0], b[1], b[2]) }

type job struct {
	idx        int
	vt         vtype
	bs         im.P3
	bg         int // Background config (only != 0 for one uint8blk job)
	seed       int64
	nver       int
	nbox       int
	nslice     int // per plane
	roiVer     bool
	multibyteB bool // hazard job: POST blocks on a multi-byte type, nothing else
}

// ---------- per-run de-duplication of stable violation classes ----------

var (
	dupMu  sync.Mutex
	dupCnt = map[string]int{}
)

func report(c *drv.Ctx, key, what string, witness interface{}) {
	dupMu.Lock()
	dupCnt[key]++
	n := dupCnt[key]
	dupMu.Unlock()
	if n > 2 {
		c.Count("violations_same_key_not_repeated", 1)
		return
	}
	c.Violation(key, what, witness)
}

// ---------- history ----------

type hist struct {
	c     *drv.Ctx
	w     *drv.Worker
	cl    *dvc.Client
	j     job
	r     *rand.Rand
	m     *im.Vol
	m0    *im.Vol // shadow with background 0 (classification only; nil when bg == 0)
	root  string
	tag   string
	seq   int
	trace []string
	roi   map[im.P3]bool
	spans [][4]int
	vers  []string
	bad   bool // a write was refused: the model no longer mirrors the server, stop this history
}

func (h *hist) short(v string) string { return fmt.Sprintf("v%d", h.m.Index(v)) }
func (h *hist) id() string            { return fmt.Sprintf("%s/%s/h%d", h.j.vt.name, bsName(h.j.bs), h.j.idx) }
func (h *hist) log(f string, a ...interface{}) {
	h.trace = append(h.trace, fmt.Sprintf(f, a...))
}

func (h *hist) witness(extra map[string]interface{}) map[string]interface{} {
	m := map[string]interface{}{"type": h.j.vt.name, "block_size": h.j.bs, "background": h.j.bg, "job_seed": h.j.seed, "job_index": h.j.idx,
		"roi_spans_zyx0x1": h.spans, "trace": h.trace,
		"contents": "block content = imgmodel.FillBlock(job_seed, write#, block coord): per-voxel splitmix64 stream"}
	for k, v := range extra {
		m[k] = v
	}
	return m
}

func (h *hist) base(ver string) string { return "/api/node/" + ver + "/img" }

func (h *hist) put(ver string, bc im.P3, data []byte, origin string) {
	h.m.PutBlock(ver, bc, data, origin, h.seq)
	if h.m0 != nil {
		h.m0.PutBlock(ver, bc, data, origin, h.seq)
	}
}

// blockSpan returns the block-aligned voxel offset and size of nb blocks starting at block b0.
func (h *hist) blockSpan(b0, nb im.P3) (off, size im.P3) {
	for d := 0; d < 3; d++ {
		off[d] = b0[d] * h.j.bs[d]
		size[d] = nb[d] * h.j.bs[d]
	}
	return
}

func forBlocks(b0, nb im.P3, f func(bc im.P3)) {
	for z := 0; z < nb[2]; z++ {
		for y := 0; y < nb[1]; y++ {
			for x := 0; x < nb[0]; x++ {
				f(im.P3{b0[0] + x, b0[1] + y, b0[2] + z})
			}
		}
	}
}

// pickWriteBox chooses a block box inside [-3,3]^3, biased towards already written blocks so that versions overwrite each other.
func (h *hist) pickWriteBox(ver string, maxBlocks int) (b0, nb im.P3) {
	for {
		for d := 0; d < 3; d++ {
			nb[d] = 1 + h.r.Intn(3)
		}
		if nb[0]*nb[1]*nb[2] <= maxBlocks {
			break
		}
	}
	vis := h.m.Visible(ver)
	var anchor *im.P3
	if len(vis) > 0 && h.r.Intn(100) < 60 {
		a := vis[h.r.Intn(len(vis))]
		anchor = &a
	}
	for d := 0; d < 3; d++ {
		lo, hi := -3, 3-nb[d]+1
		if anchor != nil {
			b0[d] = anchor[d] - h.r.Intn(nb[d]+1)
		} else {
			b0[d] = lo + h.r.Intn(hi-lo+1)
		}
		if b0[d] < lo {
			b0[d] = lo
		}
		if b0[d] > hi {
			b0[d] = hi
		}
	}
	return
}

func (h *hist) maxBlocksPerWrite() int {
	n := (1 << 21) / h.m.BlockBytes()
	if n < 2 {
		n = 2
	}
	if n > 27 {
		n = 27
	}
	return n
}

// writeRaw does one block-aligned POST raw/0_1_2 (ingest, mutate=true, and/or roi-restricted) and mirrors it in the model.
func (h *hist) writeRaw(ver string, b0, nb im.P3, mutate, useROI bool) error {
	h.seq++
	blocks := map[im.P3][]byte{}
	forBlocks(b0, nb, func(bc im.P3) { blocks[bc] = h.m.FillBlock(h.j.seed, h.seq, bc, h.j.vt.kind) })
	// one write in five erases: some (or all) of its blocks are all background - written over whatever the version
	// or its ancestors hold there, the voxels must read as background afterwards like any other written value
	if h.r.Intn(5) == 0 {
		all := h.r.Intn(2) == 0
		forBlocks(b0, nb, func(bc im.P3) {
			if all || h.r.Intn(2) == 0 {
				blocks[bc] = append([]byte{}, h.m.BackgroundBlock()...)
			}
		})
		h.c.Count("writes_with_all_background_blocks", 1)
	}
	payload := h.m.BoxFromBlocks(b0, nb, func(bc im.P3) []byte { return blocks[bc] })
	off, size := h.blockSpan(b0, nb)
	url := fmt.Sprintf("%s/raw/0_1_2/%s/%s", h.base(ver), size, off)
	var q []string
	origin := "raw"
	if useROI {
		q = append(q, "roi=reg")
		origin = "raw-roi"
	}
	if mutate {
		q = append(q, "mutate=true")
		origin += "-mutate"
	}
	if len(q) > 0 {
		url += "?" + strings.Join(q, "&")
	}
	before := map[im.P3][]byte{}
	forBlocks(b0, nb, func(bc im.P3) { before[bc] = append([]byte{}, h.m.BlockOrBackground(ver, bc)...) })
	rr, err := h.w.Post(url, payload)
	if err != nil {
		return err
	}
	h.log("#%d POST %s at %s (%d blocks)", h.seq, strings.TrimPrefix(url, h.base(ver)), h.short(ver), len(blocks))
	h.c.Count("writes_"+origin, 1)
	if !rr.OK() {
		h.bad = true
		report(h.c, "write-refused:"+origin+":"+h.j.vt.name, fmt.Sprintf("%s: well-formed block-aligned POST %s at open version %s refused: %s", h.id(), url, h.short(ver), rr),
			h.witness(map[string]interface{}{"url": url}))
		return nil
	}
	nin, nout := 0, 0
	forBlocks(b0, nb, func(bc im.P3) {
		if useROI && !h.roi[bc] {
			nout++
			return
		}
		nin++
		h.put(ver, bc, blocks[bc], origin)
	})
	h.c.Count("blocks_written", nin)
	if !useROI {
		// model self-check: reading the box back from the model must give the payload (a model bug is a broken run, never a verdict)
		if !bytes.Equal(h.m.ReadBox(ver, off, size), payload) {
			return fmt.Errorf("image model self-check failed for write %s", url)
		}
		return nil
	}
	// ROI-restricted write: inspect every block of the box through GET blocks/<coord>/1
	h.c.Case("roiwrite|"+h.id()+"|"+h.short(ver)+"|"+b0.String()+"|"+nb.String(), nin > 0 && nout > 0)
	h.c.Count("roi_writes", 1)
	h.c.Count("roi_write_blocks_inside", nin)
	h.c.Count("roi_write_blocks_outside", nout)
	var ferr error
	forBlocks(b0, nb, func(bc im.P3) {
		if ferr != nil {
			return
		}
		g, err := h.w.Get(fmt.Sprintf("%s/blocks/%s/1", h.base(ver), bc))
		if err != nil {
			ferr = err
			return
		}
		if !g.OK() {
			report(h.c, "blocks-read-refused:"+h.j.vt.name, fmt.Sprintf("%s: GET blocks/%s/1 at %s refused: %s", h.id(), bc, h.short(ver), g), h.witness(nil))
			return
		}
		want := h.m.BlockOrBackground(ver, bc)
		if bytes.Equal(g.Body, want) {
			return
		}
		inside := h.roi[bc]
		key := "roi-write:block-mismatch"
		what := "block content is neither the old nor the new data"
		switch {
		case !inside && bytes.Equal(g.Body, blocks[bc]):
			key, what = "roi-write:block-outside-roi-changed", "block lies outside the ROI yet holds the newly posted data"
		case !inside:
			key, what = "roi-write:block-outside-roi-changed", "block lies outside the ROI yet its content changed"
		case inside && bytes.Equal(g.Body, before[bc]):
			key, what = "roi-write:block-inside-roi-not-written", "block lies inside the ROI yet still holds the previous content"
		}
		report(h.c, key, fmt.Sprintf("%s: after POST %s at %s, block %s: %s (inside ROI per posted spans: %v)", h.id(), url, h.short(ver), bc.Comma(), what, inside),
			h.witness(map[string]interface{}{"url": url, "block": bc, "inside_roi": inside}))
	})
	return ferr
}

// writeBlocks does POST blocks/<coord>/<span> (1 byte/voxel types in regular histories).
func (h *hist) writeBlocks(ver string, b0 im.P3, span int, mutate bool) error {
	h.seq++
	var payload []byte
	blocks := map[im.P3][]byte{}
	for i := 0; i < span; i++ {
		bc := im.P3{b0[0] + i, b0[1], b0[2]}
		blocks[bc] = h.m.FillBlock(h.j.seed, h.seq, bc, h.j.vt.kind)
		payload = append(payload, blocks[bc]...)
	}
	url := fmt.Sprintf("%s/blocks/%s/%d", h.base(ver), b0, span)
	origin := "blocks"
	if mutate {
		url += "?mutate=true"
		origin = "blocks-mutate"
	}
	rr, err := h.w.Post(url, payload)
	if err != nil {
		return err
	}
	h.log("#%d POST %s at %s", h.seq, strings.TrimPrefix(url, h.base(ver)), h.short(ver))
	h.c.Count("writes_"+origin, 1)
	if !rr.OK() {
		h.bad = true
		report(h.c, "write-refused:"+origin+":"+h.j.vt.name, fmt.Sprintf("%s: well-formed POST %s at open version %s refused: %s", h.id(), url, h.short(ver), rr), h.witness(map[string]interface{}{"url": url}))
		return nil
	}
	for bc, d := range blocks {
		h.put(ver, bc, d, origin)
	}
	h.c.Count("blocks_written", span)
	return nil
}

// ---------- read geometry ----------

// axisSpan samples start/end on one axis: start = B*bs + so, end(exclusive) = (B+k)*bs + eo with so, eo in {0,1,bs-1,bs,bs+1}.
func axisSpan(r *rand.Rand, bs, B int, maxK int) (start, size int, cls string) {
	S := []int{0, 1, bs - 1, bs, bs + 1}
	for {
		so, eo := S[r.Intn(5)], S[r.Intn(5)]
		k := 0
		if x := r.Intn(100); x >= 45 {
			k = 1
			if x >= 88 && maxK >= 2 {
				k = 2
			}
		}
		start = B*bs + so
		end := (B+k)*bs + eo
		if end <= start {
			continue
		}
		return start, end - start, fmt.Sprintf("%s/%s/+%d", offName(so, bs), offName(eo, bs), k)
	}
}

func offName(o, bs int) string {
	switch o {
	case 0:
		return "0"
	case 1:
		return "1"
	case bs - 1:
		return "bs-1"
	case bs:
		return "bs"
	}
	return "bs+1"
}

// pickBase chooses the base block of a read: near written data (inside, at its border, or one block off) or anywhere in [-5,4].
func (h *hist) pickBase(ver string) im.P3 {
	vis := h.m.Visible(ver)
	var b im.P3
	if len(vis) > 0 && h.r.Intn(100) < 86 {
		a := vis[h.r.Intn(len(vis))]
		// start offsets push the box forward by up to bs+1, so the base is the written block or its predecessor
		for d := 0; d < 3; d++ {
			b[d] = a[d] + []int{-1, 0, 0, 0, 0, 0, 0}[h.r.Intn(7)]
		}
		return b
	}
	if h.r.Intn(100) < 15 { // far away, possibly very negative
		for d := 0; d < 3; d++ {
			b[d] = (h.r.Intn(2)*2 - 1) * (100 + h.r.Intn(900))
		}
		return b
	}
	for d := 0; d < 3; d++ {
		b[d] = -5 + h.r.Intn(10)
	}
	return b
}

func (h *hist) multiVersion(ver string, off, size im.P3) bool {
	lo := im.P3{im.FloorDiv(off[0], h.j.bs[0]), im.FloorDiv(off[1], h.j.bs[1]), im.FloorDiv(off[2], h.j.bs[2])}
	hi := im.P3{im.FloorDiv(off[0]+size[0]-1, h.j.bs[0]), im.FloorDiv(off[1]+size[1]-1, h.j.bs[1]), im.FloorDiv(off[2]+size[2]-1, h.j.bs[2])}
	for z := lo[2]; z <= hi[2]; z++ {
		for y := lo[1]; y <= hi[1]; y++ {
			for x := lo[0]; x <= hi[0]; x++ {
				if h.m.Writers(im.P3{x, y, z}) >= 2 {
					return true
				}
			}
		}
	}
	return false
}

// classifyBG: in an instance with Background != 0, does the answer equal what the model with background 0 predicts?
func (h *hist) bgKey(got []byte, alt func(m *im.Vol) []byte) bool {
	return h.m0 != nil && bytes.Equal(got, alt(h.m0))
}

func (h *hist) checkBox(ver string) error {
	B := h.pickBase(ver)
	var off, size im.P3
	var cls [3]string
	for {
		for d := 0; d < 3; d++ {
			off[d], size[d], cls[d] = axisSpan(h.r, h.j.bs[d], B[d], 2)
		}
		if size[0]*size[1]*size[2]*h.j.vt.bpv <= 3<<20 {
			break
		}
	}
	url := fmt.Sprintf("%s/raw/0_1_2/%s/%s", h.base(ver), size, off)
	rr, err := h.w.Get(url)
	if err != nil {
		return err
	}
	st := h.m.BoxStats(ver, off, size)
	nontrivial := st.Blocks >= 2 || (st.Written > 0 && st.Unwritten > 0)
	h.c.Case(fmt.Sprintf("box|%s|%s|%s|%s", h.id(), h.short(ver), off, size), nontrivial)
	h.c.Count("reads_raw_3d", 1)
	h.c.Seen("box_axis_offset_classes", cls[0])
	h.c.Seen("box_axis_offset_classes", cls[1])
	h.c.Seen("box_axis_offset_classes", cls[2])
	h.c.Seen("box_offset_class_triples", strings.Join(cls[:], ","))
	switch {
	case st.Written == 0:
		h.c.Count("boxes_wholly_unwritten", 1)
	case st.Unwritten > 0:
		h.c.Count("boxes_crossing_written_unwritten", 1)
	default:
		h.c.Count("boxes_wholly_written", 1)
	}
	if off[0] < 0 || off[1] < 0 || off[2] < 0 {
		h.c.Count("boxes_with_negative_coordinates", 1)
	}
	if h.multiVersion(ver, off, size) {
		h.c.Count("boxes_over_blocks_written_at_several_versions", 1)
	}
	ckey := fmt.Sprintf("%s:%s:x(%s),y(%s),z(%s)", h.j.vt.name, bsName(h.j.bs), cls[0], cls[1], cls[2])
	if !rr.OK() {
		report(h.c, "raw3d-read-refused:"+ckey, fmt.Sprintf("%s: GET %s at %s refused: %s", h.id(), url, h.short(ver), rr), h.witness(map[string]interface{}{"url": url}))
		return nil
	}
	exp := h.m.ReadBox(ver, off, size)
	if diff := h.m.FirstDiff(exp, rr.Body, off, size); diff != "" {
		key := "raw3d-mismatch:" + ckey
		if h.bgKey(rr.Body, func(m *im.Vol) []byte { return m.ReadBox(ver, off, size) }) {
			key = "background:raw-read-of-unwritten-block-is-zero"
			diff += fmt.Sprintf(" — the answer equals the model with background 0: voxels of never-written blocks read as 0 instead of the configured Background=%d", h.j.bg)
		}
		report(h.c, key, fmt.Sprintf("%s: GET raw/0_1_2/%s/%s at %s (%d blocks: %d written, %d unwritten): %s", h.id(), size, off, h.short(ver), st.Blocks, st.Written, st.Unwritten, diff),
			h.witness(map[string]interface{}{"url": url, "size": size, "offset": off, "diff": diff}))
	}
	if h.c.SeenCount("samples_box") < 2 && st.Written > 0 && st.Unwritten > 0 && h.m.Index(ver) > 0 {
		h.c.Seen("samples_box", url)
		h.c.Sample(map[string]interface{}{"kind": "raw 3-D box", "instance": h.id(), "version": h.short(ver), "size": size, "offset": off, "offset_class": cls,
			"blocks": st.Blocks, "written": st.Written, "unwritten": st.Unwritten, "bytes_compared": len(exp)})
	}
	return nil
}

var twoDMu sync.Mutex
var twoDKinds = map[string]map[string]bool{}

func (h *hist) checkSlice(ver, plane string) error {
	ax := im.PlaneAxes[plane]
	fixed := 3 - ax[0] - ax[1]
	B := h.pickBase(ver)
	var off im.P3
	var sz [2]int
	var cls [2]string
	off[ax[0]], sz[0], cls[0] = axisSpan(h.r, h.j.bs[ax[0]], B[ax[0]], 2)
	off[ax[1]], sz[1], cls[1] = axisSpan(h.r, h.j.bs[ax[1]], B[ax[1]], 2)
	bsf := h.j.bs[fixed]
	pi := h.r.Intn(4)
	pos := []int{0, 1, bsf / 2, bsf - 1}[pi]
	posName := []string{"0", "1", "bs/2", "bs-1"}[pi]
	off[fixed] = B[fixed]*bsf + pos
	url := fmt.Sprintf("%s/raw/%s/%d_%d/%s", h.base(ver), plane, sz[0], sz[1], off)
	if h.r.Intn(2) == 0 {
		url += "/png"
	}
	rr, err := h.w.Get(url)
	if err != nil {
		return err
	}
	var size3 im.P3
	size3[ax[0]], size3[ax[1]], size3[fixed] = sz[0], sz[1], 1
	st := h.m.BoxStats(ver, off, size3)
	nontrivial := st.Blocks >= 2 || (st.Written > 0 && st.Unwritten > 0)
	h.c.Case(fmt.Sprintf("slice|%s|%s|%s|%s|%dx%d", h.id(), h.short(ver), plane, off, sz[0], sz[1]), nontrivial)
	h.c.Count("reads_raw_2d_"+plane, 1)
	h.c.Seen("slice_classes", fmt.Sprintf("%s:%s,%s@%s", plane, cls[0], cls[1], posName))
	ckey := fmt.Sprintf("%s:%s:%s:(%s),(%s),pos(%s)", h.j.vt.name, bsName(h.j.bs), plane, cls[0], cls[1], posName)
	if !rr.OK() {
		report(h.c, "raw2d-read-refused:"+ckey, fmt.Sprintf("%s: GET %s at %s refused: %s", h.id(), url, h.short(ver), rr), h.witness(map[string]interface{}{"url": url}))
		return nil
	}
	got, w, hh, kind, err := im.DecodePNG(rr.Body, h.j.vt.bpv)
	twoDMu.Lock()
	if twoDKinds[h.j.vt.name] == nil {
		twoDKinds[h.j.vt.name] = map[string]bool{}
	}
	twoDKinds[h.j.vt.name][kind+" ("+rr.CT+")"] = true
	twoDMu.Unlock()
	if err != nil {
		report(h.c, "raw2d-undecodable:"+h.j.vt.name, fmt.Sprintf("%s: GET %s: PNG cannot be mapped back to %d-byte voxels: %v", h.id(), url, h.j.vt.bpv, err), h.witness(map[string]interface{}{"url": url}))
		return nil
	}
	if w != sz[0] || hh != sz[1] {
		report(h.c, "raw2d-wrong-size:"+ckey, fmt.Sprintf("%s: GET %s returned a %dx%d image, requested %dx%d", h.id(), url, w, hh, sz[0], sz[1]), h.witness(map[string]interface{}{"url": url}))
		return nil
	}
	exp := h.m.ReadSlice(ver, plane, off, sz[0], sz[1])
	if diff := im.FirstDiffLinear(exp, got, h.j.vt.bpv, sz[0]); diff != "" {
		key := "raw2d-mismatch:" + ckey
		if h.bgKey(got, func(m *im.Vol) []byte { return m.ReadSlice(ver, plane, off, sz[0], sz[1]) }) {
			key = "background:raw-read-of-unwritten-block-is-zero"
			diff += fmt.Sprintf(" — equals the model with background 0 (configured Background=%d)", h.j.bg)
		}
		report(h.c, key, fmt.Sprintf("%s: GET raw/%s/%d_%d/%s (png) at %s (%d blocks: %d written): %s", h.id(), plane, sz[0], sz[1], off, h.short(ver), st.Blocks, st.Written, diff),
			h.witness(map[string]interface{}{"url": url, "diff": diff}))
	}
	if h.c.SeenCount("samples_slice") < 1 && nontrivial {
		h.c.Seen("samples_slice", url)
		h.c.Sample(map[string]interface{}{"kind": "raw 2-D slice (png)", "instance": h.id(), "version": h.short(ver), "plane": plane, "size": sz, "offset": off,
			"png_pixel_format": kind, "blocks": st.Blocks, "written": st.Written, "bytes_compared": len(exp)})
	}
	return nil
}

func (h *hist) checkBlocksGet(ver string) error {
	b0 := h.pickBase(ver)
	span := 1 + h.r.Intn(5)
	b0[0] -= h.r.Intn(span)
	url := fmt.Sprintf("%s/blocks/%s/%d", h.base(ver), b0, span)
	rr, err := h.w.Get(url)
	if err != nil {
		return err
	}
	var exp []byte
	nw := 0
	for i := 0; i < span; i++ {
		bc := im.P3{b0[0] + i, b0[1], b0[2]}
		if h.m.Block(ver, bc) != nil {
			nw++
		}
		exp = append(exp, h.m.BlockOrBackground(ver, bc)...)
	}
	h.c.Case(fmt.Sprintf("blocks|%s|%s|%s|%d", h.id(), h.short(ver), b0, span), span >= 2 || nw > 0)
	h.c.Count("reads_blocks", 1)
	ckey := fmt.Sprintf("%s:%s", h.j.vt.name, bsName(h.j.bs))
	if !rr.OK() {
		report(h.c, "blocks-read-refused:"+h.j.vt.name, fmt.Sprintf("%s: GET %s at %s refused: %s", h.id(), url, h.short(ver), rr), h.witness(map[string]interface{}{"url": url}))
		return nil
	}
	if !bytes.Equal(exp, rr.Body) {
		diff := im.FirstDiffLinear(exp, rr.Body, h.j.vt.bpv, h.m.BlockVoxels())
		report(h.c, "blocks-mismatch:"+ckey, fmt.Sprintf("%s: GET blocks/%s/%d at %s (%d of %d blocks written): %s (column = voxel index in block, row = block in span)", h.id(), b0, span, h.short(ver), nw, span, diff),
			h.witness(map[string]interface{}{"url": url, "diff": diff}))
	}
	return nil
}

// checkStream verifies a subvolblocks / specificblocks answer against the requested block set.
func (h *hist) checkStream(ver, endpoint, url string, want []im.P3) error {
	rr, err := h.w.Get(url)
	if err != nil {
		return err
	}
	nw := 0
	wantSet := map[im.P3]bool{}
	for _, bc := range want {
		wantSet[bc] = true
		if h.m.Block(ver, bc) != nil {
			nw++
		}
	}
	h.c.Case(fmt.Sprintf("%s|%s|%s|%s", endpoint, h.id(), h.short(ver), drv.Hash(url)), len(wantSet) >= 2 && nw > 0)
	h.c.Count("reads_"+endpoint, 1)
	ckey := fmt.Sprintf("%s:%s", h.j.vt.name, bsName(h.j.bs))
	if !rr.OK() {
		report(h.c, endpoint+"-read-refused:"+h.j.vt.name, fmt.Sprintf("%s: GET %s at %s refused: %s", h.id(), url, h.short(ver), rr), h.witness(map[string]interface{}{"url": url}))
		return nil
	}
	recs, derr := im.DecodeBlockStream(rr.Body)
	if derr != nil {
		report(h.c, endpoint+"-malformed-stream:"+ckey, fmt.Sprintf("%s: GET %s: %v", h.id(), url, derr), h.witness(map[string]interface{}{"url": url}))
		return nil
	}
	seen := map[im.P3]int{}
	for _, rec := range recs {
		seen[rec.BC]++
		if !wantSet[rec.BC] {
			report(h.c, endpoint+"-block-outside-request:"+ckey, fmt.Sprintf("%s: GET %s returned block %s which was not requested", h.id(), url, rec.BC.Comma()), h.witness(map[string]interface{}{"url": url}))
			continue
		}
		wr := h.m.Block(ver, rec.BC)
		if wr == nil {
			if bytes.Equal(rec.Data, h.m.BackgroundBlock()) {
				h.c.Count("stream_background_block_for_unset_block", 1)
			} else {
				report(h.c, endpoint+"-data-for-unwritten-block:"+ckey, fmt.Sprintf("%s: GET %s returned non-background data for never-written block %s", h.id(), url, rec.BC.Comma()), h.witness(map[string]interface{}{"url": url}))
			}
			continue
		}
		if !bytes.Equal(rec.Data, wr.Data) {
			diff := im.FirstDiffLinear(wr.Data, rec.Data, h.j.vt.bpv, h.j.bs[0])
			report(h.c, endpoint+"-mismatch:"+ckey, fmt.Sprintf("%s: GET %s at %s block %s (written by #%d): %s", h.id(), url, h.short(ver), rec.BC.Comma(), wr.Seq, diff), h.witness(map[string]interface{}{"url": url, "block": rec.BC}))
		}
	}
	for bc := range wantSet {
		if h.m.Block(ver, bc) != nil && seen[bc] == 0 {
			report(h.c, endpoint+"-written-block-missing:"+ckey, fmt.Sprintf("%s: GET %s at %s does not contain written block %s", h.id(), url, h.short(ver), bc.Comma()), h.witness(map[string]interface{}{"url": url, "block": bc}))
		}
		if seen[bc] > 1 {
			h.c.Count("stream_duplicate_blocks", seen[bc]-1)
		}
	}
	h.c.Count("stream_blocks_compared", len(recs))
	return nil
}

func (h *hist) checkSubvol(ver string) error {
	b0 := h.pickBase(ver)
	var nb im.P3
	for d := 0; d < 3; d++ {
		nb[d] = 1 + h.r.Intn(3)
		b0[d] -= h.r.Intn(nb[d])
	}
	off, size := h.blockSpan(b0, nb)
	var want []im.P3
	forBlocks(b0, nb, func(bc im.P3) { want = append(want, bc) })
	return h.checkStream(ver, "subvolblocks", fmt.Sprintf("%s/subvolblocks/%s/%s?compression=uncompressed", h.base(ver), size, off), want)
}

func (h *hist) checkSpecific(ver string) error {
	n := 1 + h.r.Intn(6)
	var want []im.P3
	var parts []string
	dup := map[im.P3]bool{}
	for i := 0; i < n; i++ {
		bc := h.pickBase(ver)
		if dup[bc] {
			continue
		}
		dup[bc] = true
		want = append(want, bc)
		parts = append(parts, bc.Comma())
	}
	return h.checkStream(ver, "specificblocks", fmt.Sprintf("%s/specificblocks?compression=uncompressed&blocks=%s", h.base(ver), strings.Join(parts, ",")), want)
}

// ---------- extents ----------

func toP3(v interface{}) (im.P3, bool) {
	a, ok := v.([]interface{})
	if !ok || len(a) != 3 {
		return im.P3{}, false
	}
	var p im.P3
	for i := range a {
		f, ok := a[i].(float64)
		if !ok {
			return im.P3{}, false
		}
		p[i] = int(f)
	}
	return p, true
}

func covers(amin, amax, min, max im.P3) bool {
	for d := 0; d < 3; d++ {
		if amin[d] > min[d] || amax[d] < max[d] {
			return false
		}
	}
	return true
}

func isRawOrigin(o string) bool { return strings.HasPrefix(o, "raw") }

func (h *hist) checkExtents(ver string) error {
	type adv struct {
		name     string
		min, max im.P3
		ok       bool
	}
	var advs []adv
	info, err := h.w.Get(h.base(ver) + "/info")
	if err != nil {
		return err
	}
	meta, err := h.w.Get(h.base(ver) + "/metadata")
	if err != nil {
		return err
	}
	if !info.OK() || !meta.OK() {
		report(h.c, "info-read-refused:"+h.j.vt.name, fmt.Sprintf("%s: GET info/metadata at %s refused: %s / %s", h.id(), h.short(ver), info, meta), h.witness(nil))
		return nil
	}
	var ij struct {
		Extended map[string]interface{}
		Extents  map[string]interface{}
	}
	if err := json.Unmarshal(info.Body, &ij); err != nil {
		return fmt.Errorf("info JSON: %v: %s", err, drv.Trunc(string(info.Body), 300))
	}
	var mj struct {
		Axes []struct {
			Label        string
			Size, Offset int
		}
		Properties map[string]interface{}
	}
	if err := json.Unmarshal(meta.Body, &mj); err != nil {
		return fmt.Errorf("metadata JSON: %v: %s", err, drv.Trunc(string(meta.Body), 300))
	}
	for _, src := range []struct {
		name string
		m    map[string]interface{}
	}{{"info.Extended", ij.Extended}, {"info.Extents", ij.Extents}, {"metadata.Properties", mj.Properties}} {
		a := adv{name: src.name}
		mn, ok1 := toP3(src.m["MinPoint"])
		mx, ok2 := toP3(src.m["MaxPoint"])
		if ok1 && ok2 {
			a.min, a.max, a.ok = mn, mx, true
		}
		advs = append(advs, a)
	}
	if len(mj.Axes) == 3 {
		a := adv{name: "metadata.Axes(offset,size)", ok: true}
		zero := true
		for d := 0; d < 3; d++ {
			a.min[d] = mj.Axes[d].Offset
			a.max[d] = mj.Axes[d].Offset + mj.Axes[d].Size - 1
			if mj.Axes[d].Size != 0 {
				zero = false
			}
		}
		a.ok = !zero
		advs = append(advs, a)
	}
	rmin, rmax, rok := h.m.Extents(ver, isRawOrigin)
	amin, amax, aok := h.m.Extents(ver, nil)
	h.c.Case(fmt.Sprintf("extents|%s|%s", h.id(), h.short(ver)), aok && h.m.Index(ver) > 0)
	h.c.Count("reads_info_metadata", 2)
	if !aok {
		return nil
	}
	for _, a := range advs {
		h.c.Seen("extent_sources", a.name)
		switch {
		case rok && (!a.ok || !covers(a.min, a.max, rmin, rmax)):
			report(h.c, "extents-not-covering:post-raw", fmt.Sprintf("%s: %s at %s advertises min=%v max=%v (present=%v) but blocks written through POST raw span %v..%v", h.id(), a.name, h.short(ver), a.min, a.max, a.ok, rmin, rmax),
				h.witness(map[string]interface{}{"source": a.name, "advertised_min": a.min, "advertised_max": a.max, "written_min": rmin, "written_max": rmax}))
		case !a.ok || !covers(a.min, a.max, amin, amax):
			report(h.c, "extents-not-covering:post-blocks", fmt.Sprintf("%s: %s at %s advertises min=%v max=%v (present=%v) but written blocks (incl. those stored through POST blocks/<coord>/<span>) span %v..%v", h.id(), a.name, h.short(ver), a.min, a.max, a.ok, amin, amax),
				h.witness(map[string]interface{}{"source": a.name, "advertised_min": a.min, "advertised_max": a.max, "written_min": amin, "written_max": amax}))
		default:
			if a.min == amin && a.max == amax {
				h.c.Count("extents_exactly_bounding_box", 1)
			} else {
				h.c.Count("extents_larger_than_bounding_box", 1)
			}
		}
	}
	return nil
}

// ---------- ROI ----------

func (h *hist) makeROI() error {
	cfg := map[string]string{"BlockSize": fmt.Sprintf("%d,%d,%d", h.j.bs[0], h.j.bs[1], h.j.bs[2])}
	if h.j.roiVer {
		cfg["Versioned"] = "true"
	}
	if err := h.cl.NewInstance(h.root, "roi", "reg", cfg); err != nil {
		return err
	}
	h.roi = map[im.P3]bool{}
	rows := map[[2]int]bool{}
	n := 4 + h.r.Intn(8)
	for i := 0; i < n; i++ {
		z, y := -3+h.r.Intn(7), -3+h.r.Intn(7)
		if rows[[2]int{z, y}] {
			continue
		}
		rows[[2]int{z, y}] = true
		x0 := -3 + h.r.Intn(7)
		x1 := x0 + h.r.Intn(4)
		if x1 > 3 {
			x1 = 3
		}
		h.spans = append(h.spans, [4]int{z, y, x0, x1})
	}
	sort.Slice(h.spans, func(i, j int) bool {
		a, b := h.spans[i], h.spans[j]
		if a[0] != b[0] {
			return a[0] < b[0]
		}
		return a[1] < b[1]
	})
	for _, s := range h.spans {
		for x := s[2]; x <= s[3]; x++ {
			h.roi[im.P3{x, s[1], s[0]}] = true
		}
	}
	body, _ := json.Marshal(h.spans)
	rr, err := h.w.Post("/api/node/"+h.root+"/reg/roi", body)
	if err != nil {
		return err
	}
	if !rr.OK() {
		return fmt.Errorf("POST roi refused: %s", rr)
	}
	h.log("POST reg/roi %s at v0", string(body))
	return nil
}

// pickROIBox places a write box so that it straddles the ROI border when possible.
func (h *hist) pickROIBox() (b0, nb im.P3) {
	s := h.spans[h.r.Intn(len(h.spans))]
	for {
		for d := 0; d < 3; d++ {
			nb[d] = 1 + h.r.Intn(3)
		}
		if nb[0]*nb[1]*nb[2] <= h.maxBlocksPerWrite() && nb[0]*nb[1]*nb[2] >= 2 {
			break
		}
	}
	edge := s[2]
	if h.r.Intn(2) == 0 {
		edge = s[3]
	}
	b0 = im.P3{edge - h.r.Intn(nb[0]), s[1] - h.r.Intn(nb[1]), s[0] - h.r.Intn(nb[2])}
	for d := 0; d < 3; d++ {
		if b0[d] < -3 {
			b0[d] = -3
		}
		if b0[d]+nb[d]-1 > 3 {
			b0[d] = 3 - nb[d] + 1
		}
	}
	return
}

// ---------- the history ----------

func (h *hist) step(f func() error) error {
	if h.bad {
		return nil
	}
	return f()
}

func runHistory(c *drv.Ctx, w *drv.Worker, j job) error {
	h := &hist{c: c, w: w, cl: &dvc.Client{W: w}, j: j, r: rand.New(rand.NewSource(j.seed))}
	h.tag = fmt.Sprintf("%s-%s-%d", j.vt.name, bsName(j.bs), j.idx)
	root, err := h.cl.NewRepo("c17-" + h.tag)
	if err != nil {
		return err
	}
	h.root = root
	cfg := map[string]string{"BlockSize": fmt.Sprintf("%d,%d,%d", j.bs[0], j.bs[1], j.bs[2])}
	if j.bg != 0 {
		cfg["Background"] = fmt.Sprint(j.bg)
	}
	if err := h.cl.NewInstance(root, j.vt.name, "img", cfg); err != nil {
		return err
	}
	h.m = im.New(j.bs, j.vt.bpv, byte(j.bg), root)
	if j.bg != 0 {
		h.m0 = im.New(j.bs, j.vt.bpv, 0, root)
	}
	h.vers = []string{root}
	c.Seen("instances", h.id())
	c.Seen("type_blocksize", j.vt.name+"/"+bsName(j.bs))

	// the instance must advertise the block size we asked for (otherwise the whole grid model is off: broken run)
	info, err := w.Get(h.base(root) + "/info")
	if err != nil {
		return err
	}
	var ij struct{ Extended struct{ BlockSize []int } }
	if json.Unmarshal(info.Body, &ij) != nil || len(ij.Extended.BlockSize) != 3 || ij.Extended.BlockSize[0] != j.bs[0] || ij.Extended.BlockSize[1] != j.bs[1] || ij.Extended.BlockSize[2] != j.bs[2] {
		return fmt.Errorf("instance %s does not advertise block size %v: %s", h.id(), j.bs, drv.Trunc(string(info.Body), 400))
	}

	if j.multibyteB {
		return h.multibytePostBlocks()
	}
	if err := h.makeROI(); err != nil {
		return err
	}
	// reads of a volume nobody wrote to
	for i := 0; i < 2; i++ {
		if err := h.checkBox(root); err != nil {
			return err
		}
	}
	if err := h.checkBlocksGet(root); err != nil {
		return err
	}

	roiAt := h.r.Intn(j.nver)
	roiAt2 := h.r.Intn(j.nver)
	cur := root
	var committed []string
	nbranch := 0
	for vi := 0; vi < j.nver && !h.bad; vi++ {
		nw := 2 + h.r.Intn(3)
		for k := 0; k < nw && !h.bad; k++ {
			b0, nb := h.pickWriteBox(cur, h.maxBlocksPerWrite())
			mutate := h.r.Intn(100) < 35
			if err := h.writeRaw(cur, b0, nb, mutate, false); err != nil {
				return err
			}
		}
		if (vi == roiAt || vi == roiAt2) && !h.bad {
			b0, nb := h.pickROIBox()
			if err := h.writeRaw(cur, b0, nb, h.r.Intn(2) == 0, true); err != nil {
				return err
			}
		}
		if j.vt.bpv == 1 && !h.bad {
			b0, _ := h.pickWriteBox(cur, 1)
			span := 1 + h.r.Intn(3)
			if b0[0]+span-1 > 3 {
				b0[0] = 3 - span + 1
			}
			if err := h.writeBlocks(cur, b0, span, h.r.Intn(3) == 0); err != nil {
				return err
			}
		}
		// reads interleaved with the writes: at the open version and at a random older one
		if !h.bad {
			if err := h.checkBox(cur); err != nil {
				return err
			}
			if err := h.checkBox(h.vers[h.r.Intn(len(h.vers))]); err != nil {
				return err
			}
		}
		if vi == j.nver-1 || h.bad {
			break
		}
		if err := h.cl.Commit(cur); err != nil {
			if dvc.IsWorkerErr(err) {
				return err
			}
			return fmt.Errorf("commit refused: %v", err)
		}
		h.log("commit %s", h.short(cur))
		committed = append(committed, cur)
		parent := cur
		var child string
		if len(committed) >= 2 && h.r.Intn(100) < 30 {
			parent = committed[h.r.Intn(len(committed)-1)]
			nbranch++
			child, err = h.cl.Branch(parent, fmt.Sprintf("b%d-%s", nbranch, h.tag))
		} else {
			child, err = h.cl.NewVersion(parent)
		}
		if err != nil {
			if dvc.IsWorkerErr(err) {
				return err
			}
			return fmt.Errorf("new version of %s refused: %v", h.short(parent), err)
		}
		h.m.AddVersion(child, parent)
		if h.m0 != nil {
			h.m0.AddVersion(child, parent)
		}
		h.vers = append(h.vers, child)
		h.log("%s = child of %s", h.short(child), h.short(parent))
		cur = child
	}
	if h.bad {
		return nil
	}
	if err := w.Settle(); err != nil {
		return err
	}

	// read sweep over every version (ancestors must still see their own data)
	for i := 0; i < j.nbox; i++ {
		if err := h.checkBox(h.vers[i%len(h.vers)]); err != nil {
			return err
		}
	}
	for _, plane := range []string{"0_1", "0_2", "1_2"} {
		for i := 0; i < j.nslice; i++ {
			if err := h.checkSlice(h.vers[h.r.Intn(len(h.vers))], plane); err != nil {
				return err
			}
		}
	}
	for _, v := range h.vers {
		for i := 0; i < 2; i++ {
			if err := h.checkBlocksGet(v); err != nil {
				return err
			}
		}
		if err := h.checkSubvol(v); err != nil {
			return err
		}
		if err := h.checkSpecific(v); err != nil {
			return err
		}
		if err := h.checkExtents(v); err != nil {
			return err
		}
	}
	c.Count("histories", 1)
	c.Count("versions", len(h.vers))
	if c.SeenCount("samples_hist") < 1 {
		c.Seen("samples_hist", h.id())
		c.Sample(map[string]interface{}{"kind": "history", "instance": h.id(), "trace": h.trace})
	}
	return nil
}

// multibytePostBlocks: POST blocks/<coord>/<span> on a type with more than one byte per voxel, read back through GET blocks only.
func (h *hist) multibytePostBlocks() error {
	span := 2
	b0 := im.P3{-1, 0, 1}
	h.seq++
	var payload []byte
	for i := 0; i < span; i++ {
		payload = append(payload, h.m.FillBlock(h.j.seed, h.seq, im.P3{b0[0] + i, b0[1], b0[2]}, h.j.vt.kind)...)
	}
	url := fmt.Sprintf("%s/blocks/%s/%d", h.base(h.root), b0, span)
	rr, err := h.w.Post(url, payload)
	if err != nil {
		return err
	}
	h.log("#%d POST %s (%d bytes = %d blocks x %d voxels x %d bytes)", h.seq, url, len(payload), span, h.m.BlockVoxels(), h.j.vt.bpv)
	h.c.Count("writes_blocks_multibyte", 1)
	h.c.Case("postblocks-multibyte|"+h.id(), true)
	if !rr.OK() {
		h.c.Count("post_blocks_multibyte_refused", 1)
		h.c.Seen("post_blocks_multibyte_refusal", drv.Trunc(string(rr.Body), 100))
		return nil // a refusal writes nothing; nothing to compare
	}
	g, err := h.w.Get(url)
	if err != nil {
		return err
	}
	if !g.OK() || !bytes.Equal(g.Body, payload) {
		diff := g.String()
		if g.OK() {
			diff = im.FirstDiffLinear(payload, g.Body, h.j.vt.bpv, h.m.BlockVoxels())
		}
		report(h.c, "post-blocks:multibyte-voxels-not-read-back", fmt.Sprintf("%s: POST %s with %d bytes (%d blocks of %d voxels x %d bytes) was acknowledged with %d, but GET of the same span differs: %s",
			h.id(), url, len(payload), span, h.m.BlockVoxels(), h.j.vt.bpv, rr.Status, diff), h.witness(map[string]interface{}{"url": url}))
	}
	// Not part of the registered check (off by default): a raw read over the block stored above, to document what it does to the server.
	if os.Getenv("C17_RAW_AFTER_MULTIBYTE_POST_BLOCKS") != "" {
		off, size := h.blockSpan(b0, im.P3{1, 1, 1})
		u := fmt.Sprintf("%s/raw/0_1_2/%s/%s", h.base(h.root), size, off)
		g2, err := h.w.Get(u)
		fmt.Fprintf(os.Stderr, "probe: GET %s after POST blocks on %s -> resp=%s err=%v stderr=%s\n", u, h.j.vt.name, drv.Trunc(g2.String(), 200), err, drv.Trunc(drv.FatalInStderr(h.w.Stderr()), 600))
		if err != nil {
			return err
		}
	}
	return nil
}

// ---------- run ----------

func run(c *drv.Ctx) error {
	c.Rule("a history = one imageblk instance (type x block size) + one ROI instance in a fresh repo: block-aligned POST raw/0_1_2 writes (ingest, mutate=true, roi=) of 1..3 blocks per axis at block coordinates in [-3,3]^3 " +
		"(and POST blocks/<coord>/<span> for 1-byte voxels) over a tree of 3..6 versions (commit/newversion/branch), every block filled with unique bytes from (seed, write#, block coord, voxel index); " +
		"a case = one read compared with the image model: 3-D raw box whose per-axis start/end offsets relative to the block grid are drawn from {0,1,bs-1,bs,bs+1} x {same,+1,+2 blocks}, based inside, at the border of, next to or far from written data; " +
		"2-D png slice in XY/XZ/YZ at in-block position {0,1,bs/2,bs-1}; GET blocks span; subvolblocks / specificblocks stream (compression=uncompressed); info+metadata extents; one ROI-restricted write (checked block by block). " +
		"A case is distinct by (instance, version, endpoint, geometry). Non-trivial: the read intersects >= 2 blocks or crosses the written/unwritten boundary (box, slice, stream, span); extents: a non-root version with data; ROI write: blocks both inside and outside the ROI")
	c.Assume("wrapper engines add no semantics: crashkv delegates every call to storage/badger")
	c.Assume("the ROI instance is created with the same BlockSize as the image instance (imageblk compares its own block indices with the ROI's block spans; differing block sizes are not explored)")
	c.Assume("version histories are trees (no merges; multi-parent resolution is C01's subject)")
	bin, err := c.Build("dvidw", "")
	if err != nil {
		return err
	}
	var jobs []job
	nh := c.N(3, 20)
	idx := 0
	for rep := 0; rep < nh; rep++ {
		for _, vt := range vtypes {
			for _, bs := range bsizes {
				idx++
				jobs = append(jobs, job{idx: idx, vt: vt, bs: bs, seed: c.Rand.Int63(), nver: 3 + c.Rand.Intn(c.N(2, 4)), nbox: c.N(100, 400), nslice: c.N(8, 16), roiVer: c.Rand.Intn(2) == 0})
			}
		}
	}
	// one instance with a non-zero Background (1-byte voxels, where "background value" is unambiguous)
	for rep := 0; rep < c.N(1, 3); rep++ {
		idx++
		jobs = append(jobs, job{idx: idx, vt: vtypes[0], bs: bsizes[rep%3], bg: 37 + rep, seed: c.Rand.Int63(), nver: 3, nbox: c.N(30, 120), nslice: c.N(3, 8), roiVer: true})
	}
	// POST blocks on multi-byte voxel types (kept apart: read back through GET blocks only)
	for _, vt := range vtypes[1:] {
		idx++
		jobs = append(jobs, job{idx: idx, vt: vt, bs: bsizes[0], seed: c.Rand.Int63(), multibyteB: true})
	}
	// heavy jobs first
	sort.SliceStable(jobs, func(a, b int) bool {
		wa := jobs[a].vt.bpv * jobs[a].bs[0] * jobs[a].bs[1] * jobs[a].bs[2]
		wb := jobs[b].vt.bpv * jobs[b].bs[0] * jobs[b].bs[1] * jobs[b].bs[2]
		return wa > wb
	})
	nw := c.N(6, 12)
	jch := make(chan job, len(jobs))
	for _, j := range jobs {
		jch <- j
	}
	close(jch)
	var wg sync.WaitGroup
	errs := make(chan error, nw+4)
	for wi := 0; wi < nw; wi++ {
		wg.Add(1)
		go func(wi int) {
			defer wg.Done()
			dir, err := c.NewDataDir(fmt.Sprintf("w%d", wi), drv.ConfOpts{})
			if err != nil {
				errs <- err
				return
			}
			w, err := drv.StartWorker(bin, dir, drv.StartOpts{})
			if err != nil {
				errs <- err
				return
			}
			defer w.Kill()
			for j := range jch {
				if err := runHistory(c, w, j); err != nil {
					if err == drv.ErrWatchdog {
						c.Inconclusive(fmt.Sprintf("watchdog in history %s/%s/h%d", j.vt.name, bsName(j.bs), j.idx))
						return
					}
					if err == drv.ErrDied {
						c.Violation("server-died:"+j.vt.name, fmt.Sprintf("worker died during history %s/%s/h%d (seed %d): %s", j.vt.name, bsName(j.bs), j.idx, j.seed, drv.Trunc(drv.FatalInStderr(w.Stderr()), 800)),
							map[string]interface{}{"job_seed": j.seed, "type": j.vt.name, "block_size": j.bs, "stderr": drv.Trunc(drv.FatalInStderr(w.Stderr()), 3000)})
						return
					}
					errs <- fmt.Errorf("worker %d history %s/%s/h%d: %v; stderr: %s", wi, j.vt.name, bsName(j.bs), j.idx, err, drv.Trunc(drv.FatalInStderr(w.Stderr()), 600))
					return
				}
			}
		}(wi)
	}
	wg.Wait()
	close(errs)
	var all []string
	for e := range errs {
		all = append(all, e.Error())
	}
	// evidence: which 2-D type/format pairs were compared, what was skipped
	td := map[string][]string{}
	twoDMu.Lock()
	for t, m := range twoDKinds {
		for k := range m {
			td[t] = append(td[t], k)
		}
		sort.Strings(td[t])
	}
	twoDMu.Unlock()
	c.Extra("two_d_png_pixel_formats_compared", td)
	c.Extra("two_d_note", "2-D slices are compared in png only (default format and explicit /png): 8-bit gray for uint8blk, 16-bit gray for uint16blk, the 4 voxel bytes as NRGBA for uint32blk/float32blk/rgba8blk, the 8 voxel bytes as NRGBA64 samples for uint64blk; jpg is lossy and never requested")
	c.Extra("formats_skipped", "subvolblocks/specificblocks are requested with compression=uncompressed only; the default (stored lz4 / jpeg) streams are not decoded; raw 3-D jpeg, isotropic, arb, tiff/bmp are not driven; ROI-masked reads (GET raw?roi=) are not part of the statement and not compared")
	if len(all) > 0 {
		sort.Strings(all)
		return fmt.Errorf("%s", strings.Join(all, " | "))
	}
	return nil
}
