// C06 — storage keys isolate data instances, data and versions.
//
// Layers:
//  1. pure  (wcmd/probe-c06, flavours plain + checkptr): round trip, injectivity, byte order and range checks of the
//     exported storage.DataContext key functions over generated (instance, tkey, version, client, marker) tuples whose
//     tkeys come from every data type's own key constructors.
//  2. raw   (live store, api c06.rawround): keys built by the real functions are RawPut into the real Badger store;
//     RawRangeQuery order must be non-decreasing in (instance, tkey, version), no two tuples may land on one entry, and
//     DeleteAll(context of instance d) must remove exactly the entries of d (what storage.DeleteDataInstance relies on).
//  3. hist  (live server): histories create A, create B, write A, write B, [commit+newversion], more writes, delete A
//     (asynchronous; completion = the name leaves the repo's DataInstances), create A' under the same name, write A'.
//     After every operation: the full read snapshot of every other live instance is unchanged, the stored entries of
//     every other instance id are byte-identical (RawRangeQuery dump), every store write issued during the operation
//     carries the id of the addressed instance (or of an instance synced with it, or is metadata), the store order is
//     non-decreasing in (instance, tkey, version); a new instance gets a never-used id that owns no stored entry, and
//     reads exactly like the first ever instance of its type did; a deleted instance leaves no entries.
//  4. nul   (live server): does the HTTP API accept keyvalue keys / annotation tags with an embedded 0x00, and if so
//     does "a" see or hide the entries of "a\x00b" (key tkey-embedded-nul).
package main

import (
	"bytes"
	"crypto/sha1"
	"encoding/binary"
	"encoding/hex"
	"encoding/json"
	"fmt"
	"math/rand"
	"sort"
	"strings"
	"sync"
	"time"

	"verif/harness/internal/drv"
	"verif/harness/internal/dvc"
)

func main() { drv.Main("C06", "exploration", run) }

// =====================================================================================
// store dump

type dentry struct {
	hexkey string
	key    []byte
	inst   uint32
	tk     []byte
	ver    uint32
	vh     string
}

type dump struct {
	es     []dentry
	byInst map[uint32][]string // "hexkey:vh" per instance in store order
}

func be32at(b []byte) uint32 {
	return uint32(b[0])<<24 | uint32(b[1])<<16 | uint32(b[2])<<8 | uint32(b[3])
}

func getDump(w *drv.Worker) (*dump, error) {
	var raw []string
	if err := w.API("c06.dump", map[string]interface{}{}, &raw); err != nil {
		return nil, err
	}
	d := &dump{byInst: map[uint32][]string{}}
	for _, s := range raw {
		i := strings.IndexByte(s, ':')
		if i < 0 {
			return nil, fmt.Errorf("bad dump line %q", s)
		}
		k, err := hex.DecodeString(s[:i])
		if err != nil {
			return nil, err
		}
		e := dentry{hexkey: s[:i], key: k, vh: s[i+1:]}
		if len(k) >= 14 {
			e.inst = be32at(k[1:5])
			e.tk = k[5 : len(k)-9]
			e.ver = be32at(k[len(k)-9 : len(k)-5])
		}
		d.es = append(d.es, e)
		d.byInst[e.inst] = append(d.byInst[e.inst], s)
	}
	return d, nil
}

// =====================================================================================
// per-worker state of the history layer

type instInfo struct {
	Name     string   `json:"name"`
	ID       uint32   `json:"id"`
	DataUUID string   `json:"datauuid"`
	Type     string   `json:"type"`
	Syncs    []uint32 `json:"syncs"`
}

type known struct {
	repo, name, typ, datauuid string
	alive                     bool
}

type wstate struct {
	c        *drv.Ctx
	w        *drv.Worker
	cl       *dvc.Client
	conf     string
	prefer   string
	known    map[uint32]*known   // every instance id ever issued on this worker
	baseline map[string][]string // type|cfg -> single-version read snapshot of the first ever instance of that kind
	last     *dump
}

type inst struct {
	name, typ, cfgKey string
	cfg               map[string]string
	id                uint32
	datauuid          string
	inc               string // incarnation tag carried by everything written to it
	snap              map[string][]string
	kv                map[string]*string // keyvalue model at the leaf version
	writes            int
}

type hist struct {
	ws     *wstate
	r      *rand.Rand
	tag    string
	root   string
	vers   []string
	live   map[string]*inst
	trace  []string
	seq    int
	phases int
	oldInc []string // incarnation tags of deleted instances
}

var kvKeys = []string{"a", "aa", "ab", "b", "k1", "k10", "zz", "a%01b"}
var annPts = [][3]int{{10, 20, 30}, {11, 20, 30}, {100, 200, 300}, {63, 63, 63}, {64, 64, 64}, {900, 5, 77}}
var annTags = []string{"t", "tt", "t1", "u"}
var roiSpans = [][4]int{{0, 0, 0, 3}, {0, 1, 2, 2}, {1, 0, 0, 0}, {5, 5, 5, 9}, {5, 6, 0, 1}, {20, 1, 1, 4}}
var blkOffs = [][3]int{{0, 0, 0}, {32, 0, 0}, {0, 32, 0}, {32, 32, 32}, {64, 0, 0}}
var liveTypes = []string{"keyvalue", "annotation", "roi", "uint8blk", "labelmap"}

// the same two body ids in every labelmap instance: per-label state (indices, caches keyed by label) of different
// instances must stay apart
var lmLabels = []uint64{7, 9}

func digest(b []byte) string {
	if len(b) <= 160 {
		return string(b)
	}
	h := sha1.Sum(b)
	return fmt.Sprintf("sha1:%s len=%d", hex.EncodeToString(h[:10]), len(b))
}

func readURLs(typ string) []string {
	switch typ {
	case "keyvalue":
		u := []string{"keys", "keyrange/0/zzzz", "keyrangevalues/0/zzzz?json=true"}
		for _, k := range kvKeys {
			u = append(u, "key/"+k)
		}
		return u
	case "annotation":
		u := []string{"all-elements", "elements/1024_1024_1024/0_0_0", "blocks/1024_1024_1024/0_0_0"}
		for _, t := range annTags {
			u = append(u, "tag/"+t)
		}
		return u
	case "roi":
		return []string{"roi"}
	case "uint8blk":
		u := []string{"raw/0_1_2/96_64_64/0_0_0"}
		for _, o := range blkOffs {
			u = append(u, fmt.Sprintf("raw/0_1_2/32_32_32/%d_%d_%d", o[0], o[1], o[2]))
		}
		return u
	case "labelmap":
		u := []string{"raw/0_1_2/96_64_64/0_0_0", "label/5_5_5", "label/40_5_5", "label/40_40_40"}
		for _, l := range lmLabels {
			u = append(u, fmt.Sprintf("size/%d", l), fmt.Sprintf("sparsevol-size/%d", l), fmt.Sprintf("sparsevol-coarse/%d", l))
		}
		return u
	}
	return nil
}

// snapshot reads everything the instance can return at every version of the repo.
func (h *hist) snapshot(in *inst) (map[string][]string, error) {
	out := map[string][]string{}
	for _, v := range h.vers {
		var rows []string
		for _, u := range readURLs(in.typ) {
			r, err := h.ws.w.Get("/api/node/" + v + "/" + in.name + "/" + u)
			if err != nil {
				return nil, err
			}
			h.ws.c.Count("snapshot_reads", 1)
			for _, old := range h.oldInc {
				if bytes.Contains(r.Body, []byte(old)) {
					h.ws.c.Violation("hist:deleted-data-visible:"+in.typ, fmt.Sprintf("GET %s on instance %q (id %d, created after the deletion) returns data written to the deleted incarnation %s: %s; history: %s",
						u, in.name, in.id, old, drv.Trunc(string(r.Body), 200), strings.Join(h.trace, "; ")), h.witness(nil))
				}
			}
			rows = append(rows, fmt.Sprintf("%s -> %d %s", u, r.Status, digest(r.Body)))
		}
		out[v] = rows
	}
	return out, nil
}

func sameRows(a, b []string) (bool, string) {
	if len(a) != len(b) {
		return false, fmt.Sprintf("%d vs %d rows", len(a), len(b))
	}
	for i := range a {
		if a[i] != b[i] {
			return false, fmt.Sprintf("before: %s | after: %s", drv.Trunc(a[i], 240), drv.Trunc(b[i], 240))
		}
	}
	return true, ""
}

func (h *hist) witness(extra map[string]interface{}) map[string]interface{} {
	m := map[string]interface{}{"layer": "hist", "conf": h.ws.conf, "history": h.tag, "trace": append([]string{}, h.trace...)}
	ids := map[string]uint32{}
	for n, in := range h.live {
		ids[n+"("+in.typ+")"] = in.id
	}
	m["live_instances"] = ids
	for k, v := range extra {
		m[k] = v
	}
	return m
}

// checkDump: well-formedness and order of the whole data key space.
func (ws *wstate) checkDump(d *dump, h *hist) {
	c := ws.c
	for i, e := range d.es {
		if len(e.key) < 14 || (e.key[len(e.key)-1] != 0x03 && e.key[len(e.key)-1] != 0x4F) {
			c.Violation("hist:store-key-malformed", fmt.Sprintf("stored data key %s is shorter than a data key or lacks the value/tombstone marker", e.hexkey), h.witness(map[string]interface{}{"key": e.hexkey}))
			continue
		}
		if _, ok := ws.known[e.inst]; !ok {
			c.Violation("hist:store-key-unknown-instance", fmt.Sprintf("stored data key %s carries instance id %d which was never issued to any data instance", e.hexkey, e.inst), h.witness(map[string]interface{}{"key": e.hexkey}))
		}
		if i > 0 {
			p := d.es[i-1]
			if len(p.key) < 14 {
				continue
			}
			bad := false
			switch {
			case p.inst != e.inst:
				bad = p.inst > e.inst
			case !bytes.Equal(p.tk, e.tk):
				bad = bytes.Compare(p.tk, e.tk) > 0
			default:
				bad = p.ver > e.ver
			}
			if bad {
				c.Violation("hist:store-order", fmt.Sprintf("RawRangeQuery returned %s (instance %d, tkey %x, version %d) before %s (instance %d, tkey %x, version %d): store order disagrees with (instance, tkey, version) order",
					p.hexkey, p.inst, p.tk, p.ver, e.hexkey, e.inst, e.tk, e.ver), h.witness(map[string]interface{}{"first": p.hexkey, "second": e.hexkey}))
			}
		}
	}
	c.Count("dump_entries_checked", len(d.es))
}

// phase runs one operation addressed to target ("" = repo level) and applies every monitor.
func (h *hist) phase(target *inst, desc string, op func() error) error {
	ws, c := h.ws, h.ws.c
	if ws.last == nil {
		d, err := getDump(ws.w)
		if err != nil {
			return err
		}
		ws.last = d
	}
	if _, err := ws.w.Audit(); err != nil { // drop anything older
		return err
	}
	h.trace = append(h.trace, desc)
	if err := op(); err != nil {
		return err
	}
	if err := ws.w.Settle(); err != nil {
		return err
	}
	evs, err := ws.w.Audit()
	if err != nil {
		return err
	}
	post, err := getDump(ws.w)
	if err != nil {
		return err
	}
	h.phases++
	// ---- who may be written
	allowed := map[uint32]bool{}
	allowedUUID := map[string]bool{}
	ttype := "repo"
	if target != nil {
		ttype = target.typ
		allowed[target.id] = true
		allowedUUID[target.datauuid] = true
		var infos []instInfo
		if err := ws.w.API("c06.instances", map[string]string{"root": h.root}, &infos); err != nil {
			return err
		}
		for _, in := range infos {
			if in.ID == target.id {
				for _, s := range in.Syncs {
					allowed[s] = true
					if k := ws.known[s]; k != nil {
						allowedUUID[k.datauuid] = true
					}
				}
			}
		}
	} else {
		for _, in := range h.live {
			allowed[in.id] = true
			allowedUUID[in.datauuid] = true
		}
	}
	// ---- write auditor
	for _, ev := range evs {
		c.Count("audit_events_"+ev.Space+"_"+ev.Op, 1)
		switch ev.Space {
		case "data":
			if !allowed[ev.Inst] {
				who := "an unknown instance"
				if k := ws.known[ev.Inst]; k != nil {
					who = fmt.Sprintf("instance %q (%s) of repo %s", k.name, k.typ, k.repo[:8])
				}
				c.Violation("hist:foreign-write:"+ttype+":"+ev.Op, fmt.Sprintf("operation %q addressed to %s issued store write %s with instance id %d (%s), tkey %s, version %d; history: %s",
					desc, h.descTarget(target), ev.Op, ev.Inst, who, ev.TKey, ev.Ver, strings.Join(h.trace, "; ")), h.witness(map[string]interface{}{"event": ev}))
			}
		case "log":
			du := ev.Log
			if i := strings.IndexByte(du, '/'); i >= 0 {
				du = du[:i]
			}
			if !allowedUUID[du] {
				c.Violation("hist:foreign-log:"+ttype, fmt.Sprintf("operation %q addressed to %s appended to the mutation log %s of another data instance; history: %s",
					desc, h.descTarget(target), ev.Log, strings.Join(h.trace, "; ")), h.witness(map[string]interface{}{"event": ev}))
			}
		}
	}
	// ---- stored entries of every other instance id are byte-identical
	ids := map[uint32]bool{}
	for id := range ws.last.byInst {
		ids[id] = true
	}
	for id := range post.byInst {
		ids[id] = true
	}
	others := 0
	for id := range ids {
		if allowed[id] {
			continue
		}
		a, b := ws.last.byInst[id], post.byInst[id]
		if len(a) > 0 {
			others++
		}
		if ok, diff := sameRows(a, b); !ok {
			who := "an unknown instance"
			if k := ws.known[id]; k != nil {
				who = fmt.Sprintf("instance %q (%s) of repo %s", k.name, k.typ, k.repo[:8])
			}
			c.Violation("hist:foreign-entries-changed:"+ttype+":"+opClass(desc), fmt.Sprintf("operation %q addressed to %s changed the stored entries of instance id %d (%s): %s; history: %s",
				desc, h.descTarget(target), id, who, diff, strings.Join(h.trace, "; ")), h.witness(map[string]interface{}{"instance": id, "before": a, "after": b}))
		}
	}
	ws.checkDump(post, h)
	ws.last = post
	// ---- read snapshots of every other live instance are unchanged; the target's is refreshed
	compared := 0
	names := make([]string, 0, len(h.live))
	for n := range h.live {
		names = append(names, n)
	}
	sort.Strings(names)
	for _, n := range names {
		in := h.live[n]
		s, err := h.snapshot(in)
		if err != nil {
			return err
		}
		if target == nil || in == target || in.snap == nil {
			// repo-level operations (commit, newversion) add versions; existing versions must still read the same
			if target == nil && in.snap != nil {
				for v, rows := range in.snap {
					if ok, diff := sameRows(rows, s[v]); !ok {
						c.Violation("hist:snapshot-changed:"+in.typ+":"+opClass(desc), fmt.Sprintf("reads of instance %q at version %s changed after %q: %s; history: %s", in.name, v[:8], desc, diff, strings.Join(h.trace, "; ")), h.witness(nil))
					}
				}
			}
			in.snap = s
			continue
		}
		compared++
		for v, rows := range in.snap {
			if ok, diff := sameRows(rows, s[v]); !ok {
				c.Violation("hist:snapshot-changed:"+in.typ+":"+opClass(desc), fmt.Sprintf("operation %q addressed to %s changed what instance %q (%s, id %d) returns at version %s: %s; history: %s",
					desc, h.descTarget(target), in.name, in.typ, in.id, v[:8], diff, strings.Join(h.trace, "; ")), h.witness(map[string]interface{}{"victim": in.name, "version": v}))
			}
		}
		in.snap = s
	}
	// reads must not write either (the snapshot reads above were addressed to known instances)
	revs, err := ws.w.Audit()
	if err != nil {
		return err
	}
	for _, ev := range revs {
		if ev.Space == "data" {
			c.Count("observation_data_writes_during_reads", 1)
		}
	}
	c.Case(fmt.Sprintf("hist|%s|%s|%d|%s", ws.conf, h.tag, h.phases, desc), others > 0 && compared > 0)
	c.Count("hist_phases", 1)
	c.Seen("phase_kinds", ttype+":"+opClass(desc))
	return nil
}

func opClass(desc string) string {
	if i := strings.IndexByte(desc, ' '); i > 0 {
		return desc[:i]
	}
	return desc
}

func (h *hist) descTarget(t *inst) string {
	if t == nil {
		return "the repo"
	}
	return fmt.Sprintf("instance %q (%s, id %d)", t.name, t.typ, t.id)
}

func cfgKey(typ string, cfg map[string]string) string {
	ks := make([]string, 0, len(cfg))
	for k, v := range cfg {
		ks = append(ks, k+"="+v)
	}
	sort.Strings(ks)
	return typ + "|" + strings.Join(ks, ",")
}

func (h *hist) randCfg(typ string) map[string]string {
	switch typ {
	case "keyvalue":
		if h.r.Intn(4) == 0 {
			return map[string]string{"versioned": "false"}
		}
	case "roi":
		if h.r.Intn(2) == 0 {
			return map[string]string{"versioned": "true"}
		}
	case "labelmap":
		return map[string]string{"BlockSize": "32,32,32"}
	}
	return nil
}

// create makes a new instance and applies the new-instance oracles.
func (h *hist) create(name, typ string, cfg map[string]string) (*inst, error) {
	ws, c := h.ws, h.ws.c
	in := &inst{name: name, typ: typ, cfg: cfg, cfgKey: cfgKey(typ, cfg), kv: map[string]*string{}}
	h.seq++
	in.inc = fmt.Sprintf("INC_%s_%s_%d_", h.tag, name, h.seq)
	var pre *dump
	err := h.phaseCreate(in, func() error {
		pre = ws.last
		if err := ws.cl.NewInstance(h.leaf(), typ, name, cfg); err != nil { // instances can only be created on an open node
			return err
		}
		var infos []instInfo
		if err := ws.w.API("c06.instances", map[string]string{"root": h.root}, &infos); err != nil {
			return err
		}
		found := false
		for _, x := range infos {
			if x.Name == name {
				in.id, in.datauuid, found = x.ID, x.DataUUID, true
			}
		}
		if !found {
			return fmt.Errorf("instance %q not listed after creation", name)
		}
		if k, used := ws.known[in.id]; used {
			c.Violation("hist:instance-id-reused", fmt.Sprintf("new instance %q (%s) received instance id %d which had already been issued to instance %q (%s) of repo %s (alive=%v); history: %s",
				name, typ, in.id, k.name, k.typ, k.repo[:8], k.alive, strings.Join(h.trace, "; ")), h.witness(map[string]interface{}{"id": in.id}))
		}
		if n := len(pre.byInst[in.id]); n > 0 {
			c.Violation("hist:new-instance-owns-old-entries", fmt.Sprintf("new instance %q (%s) received instance id %d for which the store already held %d entries (first %s); history: %s",
				name, typ, in.id, n, pre.byInst[in.id][0], strings.Join(h.trace, "; ")), h.witness(map[string]interface{}{"id": in.id, "entries": pre.byInst[in.id]}))
		}
		ws.known[in.id] = &known{repo: h.root, name: name, typ: typ, datauuid: in.datauuid, alive: true}
		h.live[name] = in
		c.Seen("instance_ids", fmt.Sprint(in.id))
		if in.id >= 0xFFFFFFF0 || in.id == 0 {
			c.Count("instances_with_id_0_or_top16", 1)
		}
		return nil
	})
	if err != nil {
		return nil, err
	}
	// a newly created instance is empty: it reads, at every version, exactly like the first ever instance of its kind
	for _, v := range h.vers {
		rows := in.snap[v]
		base, ok := ws.baseline[in.cfgKey]
		if !ok {
			ws.baseline[in.cfgKey] = rows
			c.Count("baselines_recorded", 1)
			base = rows
			if typ == "keyvalue" && (len(rows) == 0 || !strings.HasSuffix(rows[0], "-> 200 []")) {
				c.Violation("hist:new-instance-not-empty:keyvalue", fmt.Sprintf("the very first keyvalue instance lists keys right after creation: %v", rows), h.witness(nil))
			}
		}
		if ok, diff := sameRows(base, rows); !ok {
			c.Violation("hist:new-instance-not-empty:"+typ, fmt.Sprintf("newly created instance %q (%s, id %d) does not read like an empty instance at version %s: %s; history: %s",
				name, typ, in.id, v[:8], diff, strings.Join(h.trace, "; ")), h.witness(map[string]interface{}{"id": in.id}))
		}
		c.Count("new_instance_emptiness_checks", 1)
	}
	return in, nil
}

// phaseCreate is phase() for an instance whose id is only known once the operation ran.
func (h *hist) phaseCreate(in *inst, op func() error) error {
	return h.phase(in, fmt.Sprintf("create %s %s %v", in.name, in.typ, in.cfg), op)
}

func (h *hist) leaf() string { return h.vers[len(h.vers)-1] }

// write performs one mutating request on the instance.
func (h *hist) write(in *inst) error {
	ws, r := h.ws, h.r
	h.seq++
	base := "/api/node/" + h.leaf() + "/" + in.name + "/"
	var method, url, desc string
	var body []byte
	var after func(ok bool)
	switch in.typ {
	case "keyvalue":
		k := kvKeys[r.Intn(len(kvKeys))]
		if r.Intn(4) == 0 {
			method, url, desc = "DELETE", base+"key/"+k, "kvdel "+in.name+" "+k
			after = func(ok bool) {
				if ok {
					in.kv[k] = nil
				}
			}
		} else {
			val := fmt.Sprintf("%s %s #%d", in.inc, k, h.seq)
			method, url, body, desc = "POST", base+"key/"+k, []byte(val), "kvput "+in.name+" "+k
			after = func(ok bool) {
				if ok {
					in.kv[k] = &val
				}
			}
		}
	case "annotation":
		if r.Intn(5) == 0 {
			p := annPts[r.Intn(len(annPts))]
			method, url, desc = "DELETE", fmt.Sprintf("%selement/%d_%d_%d", base, p[0], p[1], p[2]), fmt.Sprintf("anndel %s %v", in.name, p)
		} else {
			var els []map[string]interface{}
			for i := 1 + r.Intn(3); i > 0; i-- {
				p := annPts[r.Intn(len(annPts))]
				els = append(els, map[string]interface{}{"Pos": p, "Kind": "Note", "Tags": []string{annTags[r.Intn(len(annTags))]}, "Prop": map[string]string{"inc": in.inc, "seq": fmt.Sprint(h.seq)}})
			}
			body, _ = json.Marshal(els)
			method, url, desc = "POST", base+"elements", fmt.Sprintf("annput %s %d elements", in.name, len(els))
		}
	case "roi":
		if r.Intn(6) == 0 {
			method, url, desc = "DELETE", base+"roi", "roidel "+in.name
		} else {
			var sp [][4]int
			for _, s := range roiSpans {
				if r.Intn(2) == 0 {
					sp = append(sp, s)
				}
			}
			if len(sp) == 0 {
				sp = append(sp, roiSpans[0])
			}
			body, _ = json.Marshal(sp)
			method, url, desc = "POST", base+"roi", fmt.Sprintf("roiput %s %d spans", in.name, len(sp))
		}
	case "uint8blk":
		o := blkOffs[r.Intn(len(blkOffs))]
		body = bytes.Repeat([]byte{byte(1 + h.seq%250)}, 32*32*32)
		method, url, desc = "POST", fmt.Sprintf("%sraw/0_1_2/32_32_32/%d_%d_%d", base, o[0], o[1], o[2]), fmt.Sprintf("blkput %s %v", in.name, o)
	case "labelmap":
		o := blkOffs[r.Intn(len(blkOffs))]
		l := lmLabels[r.Intn(len(lmLabels))]
		body = make([]byte, 32*32*32*8)
		for i := 0; i < len(body); i += 8 {
			binary.LittleEndian.PutUint64(body[i:], l)
		}
		method, url, desc = "POST", fmt.Sprintf("%sraw/0_1_2/32_32_32/%d_%d_%d", base, o[0], o[1], o[2]), fmt.Sprintf("lmput %s label %d %v", in.name, l, o)
	}
	err := h.phase(in, desc, func() error {
		rr, err := ws.w.HTTP(method, url, body)
		if err != nil {
			return err
		}
		if rr.OK() {
			in.writes++
			ws.c.Count("writes_ok_"+in.typ, 1)
		} else {
			ws.c.Count("writes_refused_"+in.typ, 1)
			ws.c.Seen("refusals", in.typ+":"+opClass(desc)+":"+fmt.Sprint(rr.Status))
			h.trace[len(h.trace)-1] += fmt.Sprintf(" [refused %d]", rr.Status)
		}
		if after != nil {
			after(rr.OK())
		}
		return nil
	})
	if err != nil {
		return err
	}
	if in.typ == "keyvalue" {
		// own reads at the leaf: exactly what was written to this incarnation
		for _, k := range kvKeys {
			rr, err := ws.w.Get(base + "key/" + k)
			if err != nil {
				return err
			}
			want := in.kv[k]
			if (want == nil && rr.Status != 404) || (want != nil && (rr.Status != 200 || string(rr.Body) != *want)) {
				w := "404"
				if want != nil {
					w = *want
				}
				ws.c.Violation("hist:own-read-wrong:keyvalue", fmt.Sprintf("instance %q (id %d) key %q at the leaf: expected %s, got %s; history: %s", in.name, in.id, k, w, rr, strings.Join(h.trace, "; ")), h.witness(nil))
			}
		}
	}
	return nil
}

func (h *hist) deleteInstance(in *inst) error {
	ws, c := h.ws, h.ws.c
	before := len(ws.last.byInst[in.id])
	err := h.phaseDelete(in, func() error {
		if err := ws.w.API("c06.delete", map[string]string{"root": h.root, "name": in.name}, nil); err != nil {
			return err
		}
		// completion signal: repoT.deleteData removes the name from the repo only after storage.DeleteDataInstance returned
		for i := 0; ; i++ {
			ri, err := ws.cl.Repo(h.root)
			if err != nil {
				return err
			}
			if _, still := ri.DataInstances[in.name]; !still {
				break
			}
			if i > 2400 {
				return fmt.Errorf("deletion of %q did not complete: %w", in.name, drv.ErrWatchdog)
			}
			time.Sleep(25 * time.Millisecond)
		}
		delete(h.live, in.name)
		ws.known[in.id].alive = false
		h.oldInc = append(h.oldInc, in.inc)
		return nil
	})
	if err != nil {
		return err
	}
	left := ws.last.byInst[in.id]
	c.Count("deletions", 1)
	c.Count("entries_held_by_deleted_instances", before)
	if before >= 3 {
		c.Count("deletions_of_instances_with_3_or_more_entries", 1)
	}
	if next := ws.known[in.id+1]; next != nil && next.alive && len(ws.last.byInst[in.id+1]) > 0 {
		c.Count("deletions_with_live_nonempty_next_instance_id", 1)
	}
	if len(left) > 0 {
		if in.id == 0xFFFFFFFF {
			c.Count("observation_deleted_instance_0xFFFFFFFF_left_entries", len(left))
		} else {
			c.Violation("hist:delete-left-entries:"+in.typ, fmt.Sprintf("deleting instance %q (%s, id %d) left %d of its %d entries in the store (first %s); history: %s",
				in.name, in.typ, in.id, len(left), before, left[0], strings.Join(h.trace, "; ")), h.witness(map[string]interface{}{"id": in.id, "left": left}))
		}
	}
	if rr, err := ws.w.Get("/api/node/" + h.root + "/" + in.name + "/info"); err != nil {
		return err
	} else if rr.OK() {
		c.Violation("hist:deleted-instance-still-served", fmt.Sprintf("instance %q still answers after its deletion completed: %s", in.name, rr), h.witness(nil))
	}
	return nil
}

func (h *hist) phaseDelete(in *inst, op func() error) error {
	return h.phase(in, fmt.Sprintf("delete %s (id %d)", in.name, in.id), op)
}

func (h *hist) dagStep() error {
	return h.phase(nil, "commit+newversion", func() error {
		if err := h.ws.cl.Commit(h.leaf()); err != nil {
			return err
		}
		ch, err := h.ws.cl.NewVersion(h.leaf())
		if err != nil {
			return err
		}
		h.vers = append(h.vers, ch)
		return nil
	})
}

func runHistory(ws *wstate, r *rand.Rand, tag string) error {
	c := ws.c
	h := &hist{ws: ws, r: r, tag: tag, live: map[string]*inst{}}
	root, err := ws.cl.NewRepo("c06-" + tag)
	if err != nil {
		return err
	}
	h.root = root
	h.vers = []string{root}
	ws.last = nil
	pickType := func() string {
		if ws.prefer != "" && r.Intn(4) != 0 {
			return ws.prefer
		}
		return liveTypes[r.Intn(len(liveTypes))]
	}
	tA, tB := pickType(), pickType()
	if r.Intn(3) == 0 && ws.prefer == "" {
		tA = "keyvalue"
	}
	var A, B *inst
	aFirst := r.Intn(10) < 7
	if aFirst {
		if A, err = h.create("da", tA, h.randCfg(tA)); err != nil {
			return err
		}
		if B, err = h.create("db", tB, h.randCfg(tB)); err != nil {
			return err
		}
	} else {
		if B, err = h.create("db", tB, h.randCfg(tB)); err != nil {
			return err
		}
		if A, err = h.create("da", tA, h.randCfg(tA)); err != nil {
			return err
		}
	}
	// A gets at least 3 successful writes (>= 3 stored entries), B only a few
	nA, nB := 3+r.Intn(4), 1+r.Intn(2)
	stored := func(in *inst) int {
		if ws.last == nil {
			return 0
		}
		return len(ws.last.byInst[in.id])
	}
	for A.writes < nA || stored(A) < 3 || B.writes < nB {
		if B.writes < nB && ((A.writes >= nA && stored(A) >= 3) || r.Intn(3) == 0) {
			if err := h.write(B); err != nil {
				return err
			}
		} else if err := h.write(A); err != nil {
			return err
		}
		if h.phases > 60 {
			break
		}
	}
	if r.Intn(2) == 0 {
		if err := h.dagStep(); err != nil {
			return err
		}
		for i := 1 + r.Intn(3); i > 0; i-- {
			if err := h.write(A); err != nil {
				return err
			}
		}
		if r.Intn(2) == 0 {
			if err := h.write(B); err != nil {
				return err
			}
		}
	}
	if err := h.deleteInstance(A); err != nil {
		return err
	}
	tA2 := tA
	if r.Intn(2) == 0 {
		tA2 = pickType()
	}
	A2, err := h.create("da", tA2, h.randCfg(tA2))
	if err != nil {
		return err
	}
	for i := 1 + r.Intn(3); i > 0; i-- {
		if err := h.write(A2); err != nil {
			return err
		}
	}
	if r.Intn(2) == 0 {
		if err := h.write(B); err != nil {
			return err
		}
	}
	// sometimes B goes too, and a third instance arrives
	if r.Intn(3) == 0 {
		if err := h.deleteInstance(B); err != nil {
			return err
		}
		tC := pickType()
		C, err := h.create("dc", tC, h.randCfg(tC))
		if err != nil {
			return err
		}
		if err := h.write(C); err != nil {
			return err
		}
		if err := h.write(A2); err != nil {
			return err
		}
	}
	c.Count("histories", 1)
	c.Seen("history_shapes", fmt.Sprintf("%s/%s/%s afirst=%v vers=%d", tA, tB, tA2, aFirst, len(h.vers)))
	if c.SeenCount("history_shapes") <= 2 {
		c.Sample(map[string]interface{}{"layer": "hist", "conf": ws.conf, "trace": h.trace})
	}
	return nil
}

// =====================================================================================
// raw layer

type rtuple struct {
	I  uint32 `json:"i"`
	T  string `json:"t"`
	V  uint32 `json:"v"`
	C  uint32 `json:"c"`
	X  bool   `json:"x"`
	tk []byte
}

var b32 = []uint32{0, 1, 2, 0xFF, 0x100, 0xFFFF, 0x10000, 0x7FFFFFFF, 0x80000000, 0xFFFFFFFE, 0xFFFFFFFF}
var b64 = []uint64{0, 1, 2, 0xFF, 0x100, 0xFFFFFFFF, 0x100000000, 0x7FFFFFFFFFFFFFFF, 0x8000000000000000, 0xFFFFFFFFFFFFFFFE, 0xFFFFFFFFFFFFFFFF}
var rawStrs = []string{"a", "aa", "ab", "b", "a\x01", "a\xff", "\xff", "\xff\xff", "k1", "k10", "a\x03", "a\x4f", "a\xff\xff\xff\xff\xff\xff\xff\xff\x4f"}

func rpick32(r *rand.Rand) uint32 {
	switch r.Intn(8) {
	case 0, 1, 2, 3, 4:
		return b32[r.Intn(len(b32))]
	case 5:
		return b32[r.Intn(len(b32))] + uint32(r.Intn(3)) - 1
	default:
		return r.Uint32()
	}
}

// rawTKey makes a byte string shaped like a real type-specific key: class, 0x01, payload.  Within one class the
// payloads have one length or are 0x00-terminated without embedded 0x00 (the documented TKey contract).
func rawTKey(r *rand.Rand) []byte {
	u64 := func() []byte {
		v := b64[r.Intn(len(b64))]
		if r.Intn(3) == 0 {
			v += uint64(r.Intn(3)) - 1
		}
		b := make([]byte, 8)
		for i := 0; i < 8; i++ {
			b[i] = byte(v >> uint(56-8*i))
		}
		return b
	}
	switch r.Intn(5) {
	case 0:
		return append([]byte{187, 1}, u64()...)
	case 1:
		return append(append([]byte{186, 1, byte(r.Intn(3))}, u64()...), u64()[:4]...)
	case 2:
		return []byte{byte(237 + r.Intn(3)), 1}
	default:
		s := rawStrs[r.Intn(len(rawStrs))]
		if r.Intn(4) == 0 {
			s += string([]byte{byte(1 + r.Intn(255))})
		}
		return append(append([]byte{177, 1}, s...), 0)
	}
}

func rawRound(c *drv.Ctx, w *drv.Worker, r *rand.Rand, round int) error {
	var ids []uint32
	base := rpick32(r)
	ids = append(ids, base-1, base, base+1)
	for i := r.Intn(3); i > 0; i-- {
		ids = append(ids, rpick32(r))
	}
	var tks [][]byte
	for i := 4 + r.Intn(10); i > 0; i-- {
		tks = append(tks, rawTKey(r))
	}
	var vers, clients []uint32
	for i := 2 + r.Intn(4); i > 0; i-- {
		vers = append(vers, rpick32(r))
	}
	clients = []uint32{0, 0, rpick32(r)}
	have := map[string]bool{}
	var ts []rtuple
	for i := 0; i < 400 && len(ts) < 250; i++ {
		t := rtuple{I: ids[r.Intn(len(ids))], tk: tks[r.Intn(len(tks))], V: vers[r.Intn(len(vers))], C: clients[r.Intn(len(clients))], X: r.Intn(4) == 0}
		t.T = hex.EncodeToString(t.tk)
		id := fmt.Sprintf("%d|%s|%d|%d|%v", t.I, t.T, t.V, t.C, t.X)
		if have[id] {
			continue
		}
		have[id] = true
		ts = append(ts, t)
	}
	del := ids[r.Intn(3)]
	mode := []string{"", "unversioned", "unversioned", "versioned"}[r.Intn(4)]
	var res struct {
		Before      []int    `json:"before"`
		After       []int    `json:"after"`
		OtherBefore []string `json:"other_before"`
		OtherAfter  []string `json:"other_after"`
		Left        int      `json:"left"`
		Overwritten []int    `json:"overwritten"`
		DelErr      string   `json:"delerr"`
	}
	if err := w.API("c06.rawround", map[string]interface{}{"tuples": ts, "del": del, "delmode": mode}, &res); err != nil {
		return err
	}
	wit := func(extra map[string]interface{}) map[string]interface{} {
		m := map[string]interface{}{"layer": "raw", "round": round, "tuples": ts, "del": del, "delmode": mode}
		for k, v := range extra {
			m[k] = v
		}
		return m
	}
	tid := func(i int) string {
		t := ts[i]
		return fmt.Sprintf("(instance %d, tkey %s, version %d, client %d, tombstone %v)", t.I, t.T, t.V, t.C, t.X)
	}
	if len(res.Overwritten) > 0 {
		i := res.Overwritten[0]
		c.Violation("raw:collision", fmt.Sprintf("distinct tuples share one storage key: tuple %s was written onto an entry another tuple of the round already owned", tid(i)), wit(map[string]interface{}{"overwritten": res.Overwritten}))
	}
	if len(res.OtherBefore) > 0 {
		return fmt.Errorf("raw worker store holds foreign data keys %v", res.OtherBefore)
	}
	seen := map[int]bool{}
	for pos, i := range res.Before {
		if i < 0 || i >= len(ts) || seen[i] {
			return fmt.Errorf("raw round: scan returned tuple index %d twice or out of range", i)
		}
		seen[i] = true
		if pos > 0 {
			a, b := ts[res.Before[pos-1]], ts[i]
			bad := false
			switch {
			case a.I != b.I:
				bad = a.I > b.I
			case !bytes.Equal(a.tk, b.tk):
				bad = bytes.Compare(a.tk, b.tk) > 0
			default:
				bad = a.V > b.V
			}
			if bad {
				c.Violation("raw:store-order", fmt.Sprintf("RawRangeQuery returned the entry of %s before the entry of %s", tid(res.Before[pos-1]), tid(i)), wit(nil))
			}
		}
	}
	if len(res.Before)+len(res.Overwritten) < len(ts) {
		c.Violation("raw:entries-missing", fmt.Sprintf("%d tuples were RawPut but the scan of the data key space returned only %d entries", len(ts), len(res.Before)), wit(nil))
	}
	if res.DelErr != "" {
		c.Violation("raw:deleteall-error:"+mode, "DeleteAll returned "+res.DelErr, wit(nil))
	}
	still := map[int]bool{}
	for _, i := range res.After {
		still[i] = true
	}
	ownTotal, ownLeft := 0, 0
	for _, i := range res.Before {
		own := ts[i].I == del && mode != ""
		if own {
			ownTotal++
		}
		switch {
		case !still[i] && !own:
			c.Violation("raw:deleteall-foreign:"+mode, fmt.Sprintf("DeleteAll (%s context) of instance %d also removed the entry of %s", mode, del, tid(i)), wit(map[string]interface{}{"removed": ts[i]}))
		case still[i] && own:
			ownLeft++
		}
	}
	if ownLeft > 0 {
		if mode == "unversioned" && del == 0xFFFFFFFF {
			c.Count("observation_deleteall_unversioned_at_instance_0xFFFFFFFF_left_entries", ownLeft)
		} else {
			c.Violation("raw:deleteall-incomplete:"+mode, fmt.Sprintf("DeleteAll (%s context) of instance %d left %d of its %d entries", mode, del, ownLeft, ownTotal), wit(nil))
		}
	}
	if res.Left != 0 {
		return fmt.Errorf("raw round clean-up left %d entries", res.Left)
	}
	per := map[string]int{}
	for _, t := range ts {
		per[fmt.Sprintf("%d|%s", t.I, t.T)]++
	}
	for _, t := range ts {
		c.Case(fmt.Sprintf("raw|%d|%s|%d|%d|%v", t.I, t.T, t.V, t.C, t.X), per[fmt.Sprintf("%d|%s", t.I, t.T)] >= 2)
	}
	c.Count("raw_rounds", 1)
	c.Count("raw_rounds_deleteall_"+mode, 1)
	c.Count("raw_entries", len(res.Before))
	c.Count("raw_deleteall_own_entries", ownTotal)
	if round == 0 {
		c.Sample(map[string]interface{}{"layer": "raw", "instances": ids, "del": del, "delmode": mode, "tuples": len(ts), "first": ts[0]})
	}
	return nil
}

// =====================================================================================
// embedded-NUL experiment (low rate, separate)

func nulExperiment(c *drv.Ctx, w *drv.Worker) error {
	cl := &dvc.Client{W: w}
	root, err := cl.NewRepo("c06-nul")
	if err != nil {
		return err
	}
	if err := cl.NewInstance(root, "keyvalue", "kvn", nil); err != nil {
		return err
	}
	var trace []string
	do := func(m, u string, body []byte) (drv.Resp, error) {
		r, err := w.HTTP(m, "/api/node/"+root+"/"+u, body)
		if err == nil {
			trace = append(trace, fmt.Sprintf("%s %s %s -> %d %q", m, u, drv.Trunc(string(body), 60), r.Status, drv.Trunc(string(r.Body), 80)))
		}
		return r, err
	}
	// ---- keyvalue
	vNul := "VALUE-OF-a-NUL-b"
	r1, err := do("POST", "kvn/key/a%00b", []byte(vNul))
	if err != nil {
		return err
	}
	c.Case("nul|keyvalue", true)
	if !r1.OK() {
		c.Count("nul_keyvalue_key_rejected_by_api", 1)
	} else {
		c.Count("nul_keyvalue_key_accepted_by_api", 1)
		bad := ""
		g, err := do("GET", "kvn/key/a", nil)
		if err != nil {
			return err
		}
		if g.Status != 404 {
			bad = fmt.Sprintf("key \"a\" was never written, yet GET key/a answers %s after POST key/a%%00b", g)
		}
		if _, err := do("POST", "kvn/key/a", []byte("VALUE-OF-a")); err != nil {
			return err
		}
		if g, err = do("GET", "kvn/key/a", nil); err != nil {
			return err
		}
		if bad == "" && (g.Status != 200 || string(g.Body) != "VALUE-OF-a") {
			bad = fmt.Sprintf("after POST key/a%%00b and POST key/a, GET key/a answers %s instead of its own value", g)
		}
		if g, err = do("GET", "kvn/key/a%00b", nil); err != nil {
			return err
		}
		if bad == "" && (g.Status != 200 || string(g.Body) != vNul) {
			bad = fmt.Sprintf("GET key/a%%00b answers %s instead of its own value", g)
		}
		if _, err := do("DELETE", "kvn/key/a", nil); err != nil {
			return err
		}
		if g, err = do("GET", "kvn/key/a%00b", nil); err != nil {
			return err
		}
		if bad == "" && (g.Status != 200 || string(g.Body) != vNul) {
			bad = fmt.Sprintf("after DELETE key/a, GET key/a%%00b answers %s instead of its own value", g)
		}
		if g, err = do("GET", "kvn/key/a", nil); err != nil {
			return err
		}
		if bad == "" && g.Status != 404 {
			bad = fmt.Sprintf("after DELETE key/a, GET key/a answers %s", g)
		}
		if _, err = do("GET", "kvn/keys", nil); err != nil {
			return err
		}
		if bad != "" {
			c.Violation("tkey-embedded-nul", "keyvalue keys \"a\" and \"a\\x00b\" are distinct data of one instance but their storage keys are not isolated (the 0x00 terminator makes tkey(a) a byte prefix of tkey(a\\x00b)): "+bad+"; requests: "+strings.Join(trace, "; "),
				map[string]interface{}{"layer": "nul", "datatype": "keyvalue", "trace": trace})
		}
	}
	// ---- annotation tags
	trace = nil
	if err := cl.NewInstance(root, "annotation", "ann", nil); err != nil {
		return err
	}
	c.Case("nul|annotation-tag", true)
	body, _ := json.Marshal([]map[string]interface{}{{"Pos": []int{1, 2, 3}, "Kind": "Note", "Tags": []string{"t\x00x"}, "Prop": map[string]string{"who": "tagged-t-NUL-x"}}})
	r2, err := do("POST", "ann/elements", body)
	if err != nil {
		return err
	}
	if !r2.OK() {
		c.Count("nul_annotation_tag_rejected_by_api", 1)
		return nil
	}
	c.Count("nul_annotation_tag_accepted_by_api", 1)
	never, err := do("GET", "ann/tag/neverused", nil)
	if err != nil {
		return err
	}
	g, err := do("GET", "ann/tag/t", nil)
	if err != nil {
		return err
	}
	if g.Status != never.Status || string(g.Body) != string(never.Body) {
		c.Violation("tkey-embedded-nul:annotation-tag", "no element carries tag \"t\", yet GET tag/t does not answer like an unused tag after an element was tagged \"t\\x00x\": "+g.String()+"; requests: "+strings.Join(trace, "; "),
			map[string]interface{}{"layer": "nul", "datatype": "annotation", "trace": trace})
	}
	return nil
}

// =====================================================================================

func run(c *drv.Ctx) error {
	c.Rule("pure: universes of <=2000 distinct (instance, tkey, version, client, marker) tuples; ids from the boundary set {0,1,2,0xFF,0x100,0xFFFF,0x10000,0x7FFFFFFF,0x80000000,0xFFFFFFFE,0xFFFFFFFF}, their neighbours, powers of two and random; " +
		"each instance of a universe holds tkeys of ONE data type built by that type's own constructors from clustered hostile arguments (prefix-related strings, sign-boundary coordinates, labels 0 and 2^64-1); a case is one tuple, non-trivial when its datum holds >=2 tuples in the universe (a version run exists); " +
		"raw: rounds of <=250 tuples over instance ids d-1,d,d+1 RawPut into the live store, one case per tuple, same non-triviality rule; " +
		"hist: one case per operation (create/write/commit+newversion/delete) of a create A, create B, write, delete A, re-create A history; non-trivial when another instance with stored entries and a live read snapshot existed to be compared; distinct by (config, history, position, operation); " +
		"nul: one case per data type probed for embedded-0x00 names")
	c.Assume("wrapper engine crashkv adds no semantics: every call is delegated to storage/badger")
	c.Assume("data instance deletion is driven through datastore.DeleteDataByName (the function behind the RPC command 'repo <uuid> delete <name>'); this tree has no HTTP route for it")

	var wg sync.WaitGroup
	var emu sync.Mutex
	var errs []string
	fail := func(err error) {
		emu.Lock()
		errs = append(errs, err.Error())
		emu.Unlock()
	}

	// ---- pure probes (run concurrently with the live layers)
	for _, fl := range []string{"", "checkptr"} {
		wg.Add(1)
		go func(fl string) {
			defer wg.Done()
			if err := c.RunProbe("probe-c06", fl, nil, 25*time.Minute, "pure:probe-crash"); err != nil {
				fail(err)
			}
		}(fl)
	}

	bin, err := c.Build("dvidw", "")
	if err != nil {
		wg.Wait()
		return err
	}
	r := c.Rand

	// ---- raw layer + nul experiment on their own worker
	rawSeed := r.Int63()
	nRaw := c.N(40, 600)
	wg.Add(1)
	go func() {
		defer wg.Done()
		dir, err := c.NewDataDir("raw", drv.ConfOpts{})
		if err != nil {
			fail(err)
			return
		}
		w, err := drv.StartWorker(bin, dir, drv.StartOpts{})
		if err != nil {
			fail(fmt.Errorf("raw worker: %v", err))
			return
		}
		defer w.Kill()
		rr := rand.New(rand.NewSource(rawSeed))
		for i := 0; i < nRaw; i++ {
			if err := rawRound(c, w, rr, i); err != nil {
				fail(fmt.Errorf("raw round %d: %v; stderr: %s", i, err, drv.FatalInStderr(w.Stderr())))
				return
			}
		}
		if err := nulExperiment(c, w); err != nil {
			fail(fmt.Errorf("nul experiment: %v; stderr: %s", err, drv.FatalInStderr(w.Stderr())))
		}
	}()

	// ---- re-creation of a name while its old instance is still being wiped
	wg.Add(1)
	go func() {
		defer wg.Done()
		if err := recreateDuringDeletion(c, bin, c.N(2, 6)); err != nil {
			if strings.Contains(err.Error(), drv.ErrWatchdog.Error()) {
				// a request outlived the wall-clock watchdog: no verdict on this property
				c.Inconclusive(fmt.Sprintf("recreate scenario: %v", err))
			} else {
				fail(fmt.Errorf("recreate scenario: %v", err))
			}
		}
		if err := renameOntoDeletingName(c, bin); err != nil {
			if strings.Contains(err.Error(), drv.ErrWatchdog.Error()) {
				// a request outlived the wall-clock watchdog: no verdict on this property
				c.Inconclusive(fmt.Sprintf("rename-onto scenario: %v", err))
			} else {
				fail(fmt.Errorf("rename-onto scenario: %v", err))
			}
		}
	}()

	// ---- versions made on both sides of a restart keep their own storage keys
	wg.Add(1)
	go func() {
		defer wg.Done()
		if err := versionsAfterRestart(c, bin); err != nil {
			if strings.Contains(err.Error(), drv.ErrWatchdog.Error()) {
				// a request outlived the wall-clock watchdog: no verdict on this property
				c.Inconclusive(fmt.Sprintf("versions-after-restart scenario: %v", err))
			} else {
				fail(fmt.Errorf("versions-after-restart scenario: %v", err))
			}
		}
	}()

	// ---- history layer
	type wconf struct {
		name    string
		o       drv.ConfOpts
		n       int
		prefer  string // data type most instances of this worker's histories get
		restart int    // > 0: the server is restarted (cleanly) before history number `restart`
	}
	var confs []wconf
	if c.Quick() {
		confs = []wconf{{name: "seq-from-1", n: 10}, {name: "seq-from-0xFFFFFFF0", o: drv.ConfOpts{IIDStart: 0xFFFFFFF0}, n: 10},
			// label volumes with the label-index cache configured; the cache comes to life at a start that finds a labelmap instance
			{name: "labelmap-index-cache", o: drv.ConfOpts{LabelCacheMB: 16}, n: 6, prefer: "labelmap", restart: 1}}
	} else {
		for i := 0; i < 3; i++ {
			confs = append(confs, wconf{name: fmt.Sprintf("seq-from-1#%d", i), n: 40}, wconf{name: fmt.Sprintf("seq-from-0xFFFFFFF0#%d", i), o: drv.ConfOpts{IIDStart: 0xFFFFFFF0}, n: 40})
		}
		confs = append(confs, wconf{name: "seq-from-0xFFFFFFFD", o: drv.ConfOpts{IIDStart: 0xFFFFFFFD}, n: 30}, wconf{name: "random-ids", o: drv.ConfOpts{IIDGen: "random"}, n: 30},
			wconf{name: "labelmap-index-cache", o: drv.ConfOpts{LabelCacheMB: 16}, n: 30, prefer: "labelmap", restart: 2}, wconf{name: "labelmap-index-cache#2", o: drv.ConfOpts{LabelCacheMB: 16}, n: 20, prefer: "labelmap", restart: 1})
	}
	for ci, cf := range confs {
		seeds := make([]int64, cf.n)
		for i := range seeds {
			seeds[i] = r.Int63()
		}
		wg.Add(1)
		go func(ci int, cf wconf, seeds []int64) {
			defer wg.Done()
			dir, err := c.NewDataDir(fmt.Sprintf("hist%d", ci), cf.o)
			if err != nil {
				fail(err)
				return
			}
			w, err := drv.StartWorker(bin, dir, drv.StartOpts{})
			if err != nil {
				fail(fmt.Errorf("hist worker %s: %v", cf.name, err))
				return
			}
			defer w.Kill()
			ws := &wstate{c: c, w: w, cl: &dvc.Client{W: w}, conf: cf.name, prefer: cf.prefer, known: map[uint32]*known{}, baseline: map[string][]string{}}
			for i, sd := range seeds {
				if cf.restart > 0 && i == cf.restart {
					if err := ws.w.Exit("clean"); err != nil {
						fail(fmt.Errorf("hist worker %s: stop before history %d: %v", cf.name, i, err))
						return
					}
					w2, err := drv.StartWorker(bin, dir, drv.StartOpts{})
					if err != nil {
						fail(fmt.Errorf("hist worker %s: restart before history %d: %v; stderr: %s", cf.name, i, err, drv.FatalInStderr(w2.Stderr())))
						return
					}
					defer w2.Kill()
					w = w2
					ws.w, ws.cl.W = w2, w2
					c.Count("history_worker_restarts", 1)
				}
				if err := runHistory(ws, rand.New(rand.NewSource(sd)), fmt.Sprintf("%d.%d", ci, i)); err != nil {
					if strings.Contains(err.Error(), drv.ErrWatchdog.Error()) {
						c.Inconclusive(fmt.Sprintf("history %d.%d (%s): %v", ci, i, cf.name, err))
						return
					}
					fail(fmt.Errorf("hist worker %s history %d: %v; stderr: %s", cf.name, i, err, drv.FatalInStderr(w.Stderr())))
					return
				}
			}
		}(ci, cf, seeds)
	}
	wg.Wait()
	if len(errs) > 0 {
		sort.Strings(errs)
		return fmt.Errorf("%s", strings.Join(errs, " | "))
	}
	return nil
}
