package main

import (
	"fmt"

	"verif/harness/internal/drv"
	"verif/harness/internal/dvc"
)

// versionsAfterRestart: the version component of a storage key is the server-local version id, so two versions only
// stay apart in the store while they get different ids.  The ids come from a persisted counter; histories that create
// versions on both sides of a server restart - with 0, 1, 2 versions made since the counter was last written by an
// instance / repo creation - must still read every (instance, key, version) triple back as it was written: a write at a
// version made after the restart must not change what any version made before it returns, for either instance.
func versionsAfterRestart(c *drv.Ctx, bin string) error {
	for shape := 0; shape < 6; shape++ {
		nBefore := shape % 3     // versions created after the last instance creation, before the restart
		siblingKind := shape / 3 // 0: sibling branch off the committed root, 1: child of the newest version
		dir, err := c.NewDataDir(fmt.Sprintf("verrestart-%d", shape), drv.ConfOpts{})
		if err != nil {
			return err
		}
		w, err := drv.StartWorker(bin, dir, drv.StartOpts{})
		if err != nil {
			return err
		}
		cl := &dvc.Client{W: w}
		root, err := cl.NewRepo(fmt.Sprintf("verrestart-%d", shape))
		if err != nil {
			w.Kill()
			return err
		}
		for _, n := range []string{"da", "db"} {
			if err := cl.NewInstance(root, "keyvalue", n, nil); err != nil {
				w.Kill()
				return err
			}
		}
		put := func(u, inst, k, v string) error {
			r, err := w.Post("/api/node/"+u+"/"+inst+"/key/"+k, []byte(v))
			if err != nil {
				return err
			}
			if !r.OK() {
				return fmt.Errorf("POST %s/key/%s at %s: %s", inst, k, u[:8], r)
			}
			return nil
		}
		want := map[string]string{} // "uuid inst key" -> value ("" = 404)
		names := map[string]string{root: "root"}
		setw := func(u, inst, k, v string) { want[u+" "+inst+" "+k] = v }
		fail := func(err error) error { w.Kill(); return err }
		for _, inst := range []string{"da", "db"} {
			if err := put(root, inst, "k", "root-"+inst); err != nil {
				return fail(err)
			}
			setw(root, inst, "k", "root-"+inst)
		}
		if err := cl.Commit(root); err != nil {
			return fail(err)
		}
		chain := []string{root}
		for i := 0; i < nBefore; i++ {
			p := chain[len(chain)-1]
			if p != root {
				if err := cl.Commit(p); err != nil {
					return fail(err)
				}
			}
			ch, err := cl.NewVersion(p)
			if err != nil {
				return fail(err)
			}
			names[ch] = fmt.Sprintf("v%d", i+1)
			chain = append(chain, ch)
			for _, inst := range []string{"da", "db"} {
				v := fmt.Sprintf("%s-%s", names[ch], inst)
				if err := put(ch, inst, "k", v); err != nil {
					return fail(err)
				}
				setw(ch, inst, "k", v)
				if err := put(ch, inst, "only-"+names[ch], v); err != nil {
					return fail(err)
				}
				setw(ch, inst, "only-"+names[ch], v)
			}
		}
		if err := w.Exit("clean"); err != nil {
			return err
		}
		w, err = drv.StartWorker(bin, dir, drv.StartOpts{})
		if err != nil {
			c.Violation("versions-after-restart:start-fails", fmt.Sprintf("shape %d: the server does not start again: %v", shape, err), nil)
			return nil
		}
		cl = &dvc.Client{W: w}
		// the version made after the restart
		var nv string
		if siblingKind == 0 || len(chain) == 1 {
			nv, err = cl.Branch(root, fmt.Sprintf("side%d", shape))
		} else {
			last := chain[len(chain)-1]
			if err = cl.Commit(last); err == nil {
				nv, err = cl.NewVersion(last)
			}
		}
		if err != nil {
			return fail(fmt.Errorf("shape %d: new version after the restart: %v", shape, err))
		}
		names[nv] = "after-restart"
		parentOfNew := root
		if !(siblingKind == 0 || len(chain) == 1) {
			parentOfNew = chain[len(chain)-1]
		}
		// what the new version inherits, per instance, before anything is written there: the nearest ancestor's value
		anc := []string{root}
		if parentOfNew != root {
			anc = chain
		}
		for _, inst := range []string{"da", "db"} {
			for _, k := range []string{"k", "only-v1", "only-v2"} {
				v := ""
				for i := len(anc) - 1; i >= 0 && v == ""; i-- {
					v = want[anc[i]+" "+inst+" "+k]
				}
				setw(nv, inst, k, v)
			}
		}
		check := func(when string) {
			for key, v := range want {
				var u, inst, k string
				fmt.Sscanf(key, "%s %s %s", &u, &inst, &k)
				r, err := w.Get("/api/node/" + u + "/" + inst + "/key/" + k)
				if err != nil {
					c.Inconclusive(fmt.Sprintf("versions-after-restart shape %d: %v", shape, err))
					return
				}
				got := ""
				if r.Status == 200 {
					got = string(r.Body)
				}
				c.Case(fmt.Sprintf("verrestart|%d|%s|%s|%s|%s", shape, when, names[u], inst, k), true)
				if got != v {
					c.Violation("versions-after-restart:triple-reads-differently:"+when, fmt.Sprintf("shape %d (%d versions since the last instance creation, then a restart, then a new version %s): %s key %q at version %s reads %q (status %d), written/inherited value is %q",
						shape, nBefore, map[int]string{0: "branched off the root", 1: "under the newest version"}[siblingKind], inst, k, names[u], got, r.Status, v),
						map[string]interface{}{"shape": shape, "versions_before_restart": nBefore, "when": when})
				}
			}
		}
		check("before-write")
		// one write at the new version, to one instance only
		if err := put(nv, "da", "k", "after-restart-da"); err != nil {
			return fail(err)
		}
		setw(nv, "da", "k", "after-restart-da")
		check("after-write")
		c.Count("version_restart_shapes", 1)
		w.Kill()
	}
	return nil
}
