package main

import (
	"fmt"
	"time"

	"verif/harness/internal/drv"
	"verif/harness/internal/dvc"
)

// recreateDuringDeletion: "create, write, delete, re-create" with the re-creation attempted WHILE the old instance is
// still being wiped.  Deletion is asynchronous (DeleteDataByName marks the instance and returns; a goroutine removes its
// entries and only then frees the name).  The wrapping store engine holds that goroutine's DeleteAll call for a chosen
// time (no other store call is slowed) - the interleaving is forced, not hoped for.  The server may refuse
// the name until the wipe is over or accept it at once; either way, once a re-creation was ACCEPTED, the end of the old
// instance's deletion must not change what the new instance (different instance id) or a bystander returns.
func recreateDuringDeletion(c *drv.Ctx, bin string, rounds int) error {
	dir, err := c.NewDataDir("recreate", drv.ConfOpts{})
	if err != nil {
		return err
	}
	w, err := drv.StartWorker(bin, dir, drv.StartOpts{})
	if err != nil {
		return err
	}
	defer w.Kill()
	cl := &dvc.Client{W: w}
	root, err := cl.NewRepo("recreate")
	if err != nil {
		return err
	}
	if err := cl.NewInstance(root, "keyvalue", "bystander", nil); err != nil {
		return err
	}
	put := func(inst, k, v string) error {
		r, err := w.Post("/api/node/"+root+"/"+inst+"/key/"+k, []byte(v))
		if err != nil {
			return err
		}
		if !r.OK() {
			return fmt.Errorf("POST %s/key/%s: %s", inst, k, r)
		}
		return nil
	}
	for i := 0; i < 5; i++ {
		if err := put("bystander", fmt.Sprintf("b%d", i), fmt.Sprintf("bv%d", i)); err != nil {
			return err
		}
	}
	deleting := func() (bool, error) {
		var out struct {
			Running bool `json:"running"`
		}
		err := w.API("c06.deleting", nil, &out)
		return out.Running, err
	}
	for round := 0; round < rounds; round++ {
		if err := w.SetDelay(0, 0, false); err != nil {
			return err
		}
		name := "victim"
		if round > 0 {
			// later rounds delete the instance re-created by the previous round
		} else if err := cl.NewInstance(root, "keyvalue", name, nil); err != nil {
			return err
		}
		for i := 0; i < 40; i++ {
			if err := put(name, fmt.Sprintf("old%d-%d", round, i), "old"); err != nil {
				return err
			}
		}
		// hold the wipe (and only the wipe) open
		if err := w.SetWipeDelay(int64(400+200*round) * 1000); err != nil {
			return err
		}
		if err := w.API("c06.delete", map[string]string{"root": root, "name": name}, nil); err != nil {
			return err
		}
		accepted, attempts, during := false, 0, false
		for ; attempts < 400 && !accepted; attempts++ {
			busy, err := deleting()
			if err != nil {
				return err
			}
			err = cl.NewInstance(root, "keyvalue", name, nil)
			if err == nil {
				accepted, during = true, busy
				break
			}
			if dvc.IsWorkerErr(err) {
				return err
			}
			time.Sleep(10 * time.Millisecond)
		}
		if err := w.SetDelay(0, 0, false); err != nil {
			return err
		}
		if !accepted {
			c.Inconclusive(fmt.Sprintf("recreate round %d: name never accepted again", round))
			return nil
		}
		wit := map[string]interface{}{"round": round, "accepted_while_old_deletion_running": during, "refused_attempts": attempts}
		if r, err := w.Post("/api/node/"+root+"/"+name+"/key/fresh", []byte(fmt.Sprintf("fresh%d", round))); err != nil {
			return err
		} else if !r.OK() {
			c.Case(fmt.Sprintf("recreate|round%d|accepted-during-wipe=%v", round, during), true)
			c.Violation("recreate:new-instance-lost-when-old-deletion-finished", fmt.Sprintf("instance %q re-created (accepted, 200) while the old instance of that name was being deleted, but a write to it right afterwards answers %s", name, r), wit)
			return nil
		}
		// wait for the code's own completion point of the old deletion
		for i := 0; ; i++ {
			busy, err := deleting()
			if err != nil {
				return err
			}
			if !busy {
				break
			}
			if i > 4000 {
				c.Inconclusive("recreate: old deletion still running")
				return nil
			}
			time.Sleep(10 * time.Millisecond)
		}
		c.Case(fmt.Sprintf("recreate|round%d|accepted-during-wipe=%v", round, during), true)
		c.Seen("recreate_acceptance", fmt.Sprintf("accepted-during-wipe=%v", during))
		c.Count("recreate_rounds", 1)
		c.Count("recreate_attempts_refused", attempts)
		if r, err := w.Get("/api/node/" + root + "/" + name + "/key/fresh"); err != nil {
			return err
		} else if r.Status != 200 || string(r.Body) != fmt.Sprintf("fresh%d", round) {
			c.Violation("recreate:new-instance-lost-when-old-deletion-finished", fmt.Sprintf("instance %q re-created (accepted, 200) while the old instance of that name was being deleted: after the old deletion finished GET key/fresh answers %s", name, r), wit)
			return nil
		}
		if r, err := w.Get("/api/node/" + root + "/" + name + "/keys"); err != nil {
			return err
		} else if r.Status != 200 || string(r.Body) != `["fresh"]` {
			c.Violation("recreate:new-instance-keys-wrong", fmt.Sprintf("re-created instance %q lists %s, expected exactly [\"fresh\"] (entries of the deleted instance must not show, its own must)", name, r), wit)
		}
		ri, err := cl.Repo(root)
		if err != nil {
			return err
		}
		if _, ok := ri.DataInstances[name]; !ok {
			c.Violation("recreate:new-instance-not-in-repo-metadata", fmt.Sprintf("re-created instance %q is not listed in the repo metadata after the old deletion finished", name), wit)
		}
		for i := 0; i < 5; i++ {
			if r, err := w.Get(fmt.Sprintf("/api/node/%s/bystander/key/b%d", root, i)); err != nil {
				return err
			} else if r.Status != 200 || string(r.Body) != fmt.Sprintf("bv%d", i) {
				c.Violation("recreate:bystander-changed", fmt.Sprintf("bystander key b%d answers %s after delete + re-create of %q", i, r, name), wit)
			}
		}
	}
	return nil
}

// renameOntoDeletingName: the other way a name can change hands while its old instance is still being wiped - another
// instance is renamed onto it (RPC "repo <uuid> rename <old> <new>").  Same oracle: once the rename was ACCEPTED, the
// end of the old instance's deletion must not change what the renamed instance returns.
func renameOntoDeletingName(c *drv.Ctx, bin string) error {
	dir, err := c.NewDataDir("rename-onto", drv.ConfOpts{})
	if err != nil {
		return err
	}
	w, err := drv.StartWorker(bin, dir, drv.StartOpts{})
	if err != nil {
		return err
	}
	defer w.Kill()
	cl := &dvc.Client{W: w}
	root, err := cl.NewRepo("rename-onto")
	if err != nil {
		return err
	}
	for _, n := range []string{"victim", "mover"} {
		if err := cl.NewInstance(root, "keyvalue", n, nil); err != nil {
			return err
		}
	}
	for i := 0; i < 40; i++ {
		if r, err := w.Post(fmt.Sprintf("/api/node/%s/victim/key/old%d", root, i), []byte("old")); err != nil || !r.OK() {
			return fmt.Errorf("fill victim: %v %v", r, err)
		}
	}
	for i := 0; i < 5; i++ {
		if r, err := w.Post(fmt.Sprintf("/api/node/%s/mover/key/m%d", root, i), []byte(fmt.Sprintf("mv%d", i))); err != nil || !r.OK() {
			return fmt.Errorf("fill mover: %v %v", r, err)
		}
	}
	deleting := func() (bool, error) {
		var out struct {
			Running bool `json:"running"`
		}
		err := w.API("c06.deleting", nil, &out)
		return out.Running, err
	}
	if err := w.SetWipeDelay(500 * 1000); err != nil {
		return err
	}
	if err := w.API("c06.delete", map[string]string{"root": root, "name": "victim"}, nil); err != nil {
		return err
	}
	accepted, attempts, during := false, 0, false
	for ; attempts < 400 && !accepted; attempts++ {
		busy, err := deleting()
		if err != nil {
			return err
		}
		err = w.API("rpc.data_rename", map[string]string{"uuid": root, "name": "mover", "newname": "victim"}, nil)
		if err == nil {
			accepted, during = true, busy
			break
		}
		if _, ok := err.(*drv.APIError); !ok {
			return err
		}
		time.Sleep(10 * time.Millisecond)
	}
	w.SetDelay(0, 0, false)
	if !accepted {
		c.Inconclusive("rename onto a deleted name was never accepted")
		return nil
	}
	for i := 0; ; i++ {
		busy, err := deleting()
		if err != nil {
			return err
		}
		if !busy {
			break
		}
		if i > 4000 {
			c.Inconclusive("rename-onto: old deletion still running")
			return nil
		}
		time.Sleep(10 * time.Millisecond)
	}
	c.Case(fmt.Sprintf("rename-onto|accepted-during-wipe=%v", during), true)
	c.Seen("recreate_acceptance", fmt.Sprintf("rename-accepted-during-wipe=%v", during))
	c.Count("rename_onto_attempts_refused", attempts)
	wit := map[string]interface{}{"accepted_while_old_deletion_running": during, "refused_attempts": attempts}
	for i := 0; i < 5; i++ {
		r, err := w.Get(fmt.Sprintf("/api/node/%s/victim/key/m%d", root, i))
		if err != nil {
			return err
		}
		if r.Status != 200 || string(r.Body) != fmt.Sprintf("mv%d", i) {
			c.Violation("rename-onto:renamed-instance-lost-when-old-deletion-finished", fmt.Sprintf("instance \"mover\" renamed (accepted) to \"victim\" while the old \"victim\" was being deleted: after the old deletion finished GET victim/key/m%d answers %s", i, r), wit)
			return nil
		}
	}
	if r, err := w.Get("/api/node/" + root + "/victim/keys"); err != nil {
		return err
	} else if r.Status != 200 || string(r.Body) != `["m0","m1","m2","m3","m4"]` {
		c.Violation("rename-onto:renamed-instance-keys-wrong", fmt.Sprintf("the renamed instance lists %s, expected its own five keys and none of the deleted instance", r), wit)
	}
	ri, err := cl.Repo(root)
	if err != nil {
		return err
	}
	if _, ok := ri.DataInstances["victim"]; !ok {
		c.Violation("rename-onto:renamed-instance-not-in-repo-metadata", "the renamed instance is not listed in the repo metadata after the old deletion finished", wit)
	}
	return nil
}
