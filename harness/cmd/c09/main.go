// C09 — the compressed label block codec (datatype/common/labels) is lossless and its views agree.
//
// Package-level probe (wcmd/probe-c09) run in three builds: plain, -race (race detector + checkptr on the
// unsafe slice aliasing of dvid/utils.go) and -asan.  The probe generates label arrays per 8x8x8 sub-block
// so that the number of distinct labels per sub-block hits every index bit width, compresses them with the
// real MakeBlock / SubvolumeToBlock and compares every view of the compressed form with a naive loop over
// the plain []uint64 array.
package main

import (
	"encoding/json"
	"fmt"
	"os"
	"sync"
	"time"

	"verif/harness/internal/drv"
)

func main() { drv.Main("C09", "exploration", run) }

type replayDoc struct {
	Seed int64  `json:"seed"`
	Tier string `json:"tier"`
	Case struct {
		Case    *int   `json:"case"`
		Flavour string `json:"flavour"`
		Tier    string `json:"tier"`
	} `json:"case"`
}

func run(c *drv.Ctx) error {
	c.Rule("a case is one generated label array (block edges in {16,24,32,64}^3, cubic and non-cubic; 23 content kinds built per 8x8x8 sub-block: " +
		"all-zero, solid, two labels split inside one sub-block, one sub-block with 512 labels, shared labels, x-runs, plane cuts, a ladder over " +
		"{1,2,3,4,5,8,9,16,17,255,256,257,511,512} labels per sub-block, mixes, and every uniform count of that list; labels from " +
		"{0,1,2^32-1,2^32,2^63,2^64-1, neighbours, small, random}) pushed through MakeBlock and compared voxel for voxel / view for view " +
		"(MakeLabelVolume, WriteLabelVolume, Marshal+Unmarshal, Value, GetPointLabels, CalcNumLabels(nil|prev), WriteRLEs, " +
		"WriteBinaryBlocks+ReceiveBinaryBlocks, CompressGZIP, MakeSolidBlock); or one stream of 2-4 positioned blocks through WriteRLEs/WriteBinaryBlocks " +
		"(x-adjacent rows, gaps, next row/plane, exact voxel bounds intersecting every block, negative block coordinates); or one block index of a " +
		"block-aligned subvolume of up to 3x3x3 blocks through SubvolumeToBlock. Distinct by (size, kind, array content hash) resp. stream/subvolume description. " +
		"Non-trivial: the block has >= 2 distinct labels (stream: >= 1 voxel of the requested label set).")
	c.Assume("the naive oracles are loops over the plain []uint64 array in internal/labelgen/views.go (no code of the package under test is used for an expectation)")
	c.Assume("legal inputs only: block edges multiples of 8 and >= 16, points inside the block, block-aligned subvolumes, blocks streamed in ZYX order and intersecting the exact bounds")

	flavours := []string{"", "race", "asan"}
	var extra []string
	if c.Replay != "" {
		b, err := os.ReadFile(c.Replay)
		if err != nil {
			return err
		}
		var d replayDoc
		if err := json.Unmarshal(b, &d); err != nil {
			return fmt.Errorf("replay file: %v", err)
		}
		c.Seed = d.Seed
		if d.Tier != "" {
			c.Tier = d.Tier
		}
		flavours = []string{d.Case.Flavour}
		if d.Case.Case != nil {
			extra = []string{"--only", fmt.Sprint(*d.Case.Case)}
		}
	}
	watchdog := time.Duration(c.N(170, 1700)) * time.Second
	runOne := func(fl string) error {
		name := fl
		if name == "" {
			name = "plain"
		}
		return c.RunProbe("probe-c09", fl, extra, watchdog, "crash:"+name)
	}
	// the flavours are independent processes; run them side by side unless building against a scratch repo
	// copy (VERIF_REPO writes one shared alternate go.mod)
	if os.Getenv("VERIF_REPO") != "" || len(flavours) == 1 {
		for _, fl := range flavours {
			if err := runOne(fl); err != nil {
				return err
			}
		}
	} else {
		var wg sync.WaitGroup
		errs := make([]error, len(flavours))
		for i, fl := range flavours {
			wg.Add(1)
			go func(i int, fl string) {
				defer wg.Done()
				errs[i] = runOne(fl)
			}(i, fl)
		}
		wg.Wait()
		for _, err := range errs {
			if err != nil {
				return err
			}
		}
	}
	c.Extra("flavours", []string{"plain", "race(+checkptr)", "asan"})
	return nil
}
