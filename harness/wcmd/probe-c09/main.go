// probe-c09: the compressed label block codec (datatype/common/labels) is lossless and its direct views agree
// with naive views of the uncompressed []uint64 array.
//
// Cases (all inputs legal: block edges are multiples of 8 and >= 16, labels arbitrary uint64, points inside
// the block, block-aligned subvolumes, blocks streamed in ZYX order):
//
//	blk    one generated array -> MakeBlock -> MakeLabelVolume / WriteLabelVolume / Marshal+Unmarshal / Value /
//	       GetPointLabels / CalcNumLabels(nil and prev) / WriteRLEs / WriteBinaryBlocks+ReceiveBinaryBlocks /
//	       CompressGZIP / MakeSolidBlock
//	stream several positioned blocks (x-adjacent rows, gaps, a block without the label) through WriteRLEs and
//	       WriteBinaryBlocks, optionally with exact voxel bounds, optionally at negative block coordinates
//	subvol SubvolumeToBlock at every block index of a block-aligned subvolume of up to 3x3x3 blocks
package main

import (
	"bytes"
	"flag"
	"fmt"
	"os"

	"github.com/janelia-flyem/dvid/datatype/common/labels"
	"github.com/janelia-flyem/dvid/dvid"

	lg "verif/harness/internal/labelgen"
	"verif/harness/internal/probe"
)

var (
	only    = flag.Int("only", -1, "run only the case with this index (replay)")
	workers = flag.Int("workers", 0, "worker goroutines (default 4 quick, 8 thorough)")
	p       *probe.P
)

// encodeErrKey classifies a refusal to encode a legal array.  Blocks whose number of sub-blocks is odd
// (all three edges = 8 mod 16, e.g. 24x24x24) put the uint32 index table at an offset = 2 mod 4.
func encodeErrKey(size [3]int) string {
	if (size[0]/8)*(size[1]/8)*(size[2]/8)%2 == 1 {
		return "encode:odd-subblock-count-misaligned-index-table"
	}
	return "encode:error"
}

func widthClass(maxSB int) string {
	bits := 0
	for n := maxSB - 1; n > 0; n >>= 1 {
		bits++
	}
	return fmt.Sprintf("%dbit", bits)
}

func main() {
	p = probe.New()
	// the code under test logs through dvid.Infof/Errorf to stdout in places; keep the protocol stream clean
	if dn, err := os.OpenFile(os.DevNull, os.O_WRONLY, 0); err == nil {
		os.Stdout = dn
	}
	sizes := lg.AllSizes()
	kinds := lg.Kinds()

	// thorough = all (size x kind) pairs once plus a rotated diagonal; sized for ~20 CPU-minutes in the plain
	// build so that the tier stays inside its budget on a busy machine
	nBlk := p.N(400, 28000)
	nStream := p.N(60, 3000)
	nSub := p.N(16, 400)
	if p.Flavour != "" {
		nBlk, nStream, nSub = p.N(130, 4000), p.N(20, 500), p.N(6, 80)
	}
	var cases []func(c *lg.Case)

	// ---- blk: all (size x kind) pairs in thorough, a seed-rotated diagonal through them in quick
	rot := int(p.Seed % 1000)
	for i := 0; i < nBlk; i++ {
		var size [3]int
		var kind string
		if !p.Quick() && p.Flavour == "" && i < len(sizes)*len(kinds) {
			size, kind = sizes[i%len(sizes)], kinds[i/len(sizes)]
		} else {
			size = sizes[(i*7+rot)%len(sizes)]
			kind = kinds[(i+i/len(kinds)+rot)%len(kinds)]
		}
		cases = append(cases, func(c *lg.Case) { blockCase(c, size, kind) })
	}
	// ---- blk at the largest legal extent of one axis (MaxBlockSize = 1024 voxels = 128 sub-blocks) and just below it:
	// a block the encoder accepts must survive its own serialisation
	extreme := [][3]int{{1024, 16, 16}, {16, 1024, 16}, {16, 16, 1024}}
	if !p.Quick() {
		extreme = append(extreme, [3]int{1016, 16, 16}, [3]int{16, 1016, 24}, [3]int{24, 16, 1016}, [3]int{1024, 16, 24})
	}
	if p.Flavour != "" {
		extreme = extreme[rot%3 : rot%3+1]
	}
	for i, size := range extreme {
		size, kind := size, kinds[(i+rot)%len(kinds)]
		cases = append(cases, func(c *lg.Case) { blockCase(c, size, kind) })
	}
	// ---- stream
	for i := 0; i < nStream; i++ {
		i := i
		size := sizes[(i*5+rot)%len(sizes)]
		cases = append(cases, func(c *lg.Case) { streamCase(c, size, i) })
	}
	// ---- subvol
	for i := 0; i < nSub; i++ {
		size := sizes[(i*11+rot)%len(sizes)]
		cases = append(cases, func(c *lg.Case) { subvolCase(c, size) })
	}
	nw := *workers
	if nw <= 0 {
		nw = p.N(4, 8)
	}
	rn := &lg.Runner{P: p, Workers: nw, Only: *only}
	rn.Run(cases)
	p.Done()
}

func blockCase(c *lg.Case, size [3]int, kind string) {
	ci, r := c.CI, c.R
	violation := c.Violation
	g := lg.Gen(r, size, kind)
	desc := fmt.Sprintf("case=%d blk size=%s kind=%s labels=%d maxSB=%d hash=%s", ci, lg.SizeStr(size), kind, g.NLabels, g.MaxSB, g.Hash())
	c.Begin(desc)
	wit := func() map[string]interface{} {
		return map[string]interface{}{"type": "blk", "size": size, "kind": kind, "distinct_labels": g.NLabels, "max_labels_per_subblock": g.MaxSB, "array_hash": g.Hash()}
	}
	p.Case("blk|"+lg.SizeStr(size)+"|"+kind+"|"+g.Hash(), g.NLabels >= 2)
	p.Seen("sizes", lg.SizeStr(size))
	p.Seen("kinds", kind)
	p.Seen("index_bit_widths", widthClass(g.MaxSB))
	p.Seen("size_x_kind", lg.SizeStr(size)+"/"+kind)
	p.Count("blocks", 1)
	p.Count("voxels_compressed", g.NVox())
	if ci < 2 && p.Flavour == "" {
		p.Sample(map[string]interface{}{"type": "blk", "size": lg.SizeStr(size), "kind": kind, "distinct_labels": g.NLabels, "max_labels_per_subblock": g.MaxSB})
	}

	in := lg.ToBytes(g.A)
	inCopy := append([]byte{}, in...)
	var b *labels.Block
	var err error
	if pn := lg.Try(func() { b, err = labels.MakeBlock(in, lg.P3(size)) }); pn != "" {
		violation("encode:panic", "MakeBlock panicked on "+desc+": "+pn, wit())
		return
	}
	if err != nil || b == nil {
		violation(encodeErrKey(size), fmt.Sprintf("MakeBlock refused a legal array (%s): %v", desc, err), wit())
		p.Count("blocks_refused_by_encoder", 1)
		return
	}
	if !bytes.Equal(in, inCopy) {
		violation("encode:input-modified", "MakeBlock modified its input array: "+desc, wit())
	}
	small := g.NVox() <= 32*32*32
	o := lg.ViewOpts{R: r, AllVox: small && (p.Flavour == "" || g.NVox() <= 16*16*32), Light: p.Flavour != "",
		Coord: [3]int32{int32(r.Intn(5)), int32(r.Intn(5)), int32(r.Intn(300))}}
	for _, f := range lg.CheckViews(b, g.A, size, o) {
		violation(f.View+":fresh", f.What+" | "+desc, wit())
	}
	p.Count("views_checked", 8)
	if o.AllVox {
		p.Count("blocks_with_every_voxel_compared", 1)
	}

	// CalcNumLabels against a previous block of this size: a variation of the array or an unrelated block
	if ci%2 == 0 {
		var pa []uint64
		if r.Intn(2) == 0 {
			pa = lg.Gen(r, size, []string{"solid", "zero", "shared", "k=3", "runs", "mix"}[r.Intn(6)]).A
		} else {
			pa = append([]uint64{}, g.A...)
			for k, n := 0, 1+r.Intn(600); k < n; k++ {
				pa[r.Intn(len(pa))] = g.A[r.Intn(len(g.A))]
			}
		}
		pb, perr := lg.MakeBlock(pa, size)
		if perr != nil {
			return
		}
		if pn := lg.Try(func() {
			if d := lg.CmpCountDelta(b.CalcNumLabels(pb), g.A, pa); d != "" {
				violation("calcnumlabels-delta:fresh", "CalcNumLabels(prev): "+d+" | "+desc, wit())
			}
		}); pn != "" {
			violation("calcnumlabels-delta:panic", "CalcNumLabels(prev) panicked: "+pn+" | "+desc, wit())
		}
		p.Count("count_deltas_checked", 1)
	}

	// CompressGZIP is the gzip of the serialization
	if ci%5 == 0 {
		if pn := lg.Try(func() {
			z, err := b.CompressGZIP()
			ser, _ := b.MarshalBinary()
			var back []byte
			if err == nil {
				back, err = lg.Gunzip(z)
			}
			if err != nil || !bytes.Equal(back, ser) {
				violation("gzip:fresh", fmt.Sprintf("CompressGZIP does not gunzip to MarshalBinary (%v) | %s", err, desc), wit())
			}
		}); pn != "" {
			violation("gzip:panic", "CompressGZIP panicked: "+pn+" | "+desc, wit())
		}
	}
	// a solid array must behave like MakeSolidBlock
	if g.NLabels == 1 {
		sb := labels.MakeSolidBlock(g.A[0], lg.P3(size))
		o2 := o
		o2.Light, o2.AllVox = true, false
		for _, f := range lg.CheckViews(sb, g.A, size, o2) {
			violation(f.View+":solidblock", "MakeSolidBlock: "+f.What+" | "+desc, wit())
		}
		p.Count("solid_blocks", 1)
	}
}

// streamCase: several positioned blocks through the sparse-volume writers.
func streamCase(c *lg.Case, size [3]int, i int) {
	ci, r := c.CI, c.R
	violation := c.Violation
	if size[0]*size[1]*size[2] > 64*64*32 && p.Flavour != "" {
		size = [3]int{size[0], 32, 16}
	}
	variant := []string{"row", "row-gap", "rows", "clip", "negative"}[i%5]
	n := 2 + r.Intn(2)
	base := [3]int32{int32(r.Intn(4)), int32(r.Intn(4)), int32(r.Intn(4))}
	if variant == "negative" {
		base = [3]int32{-int32(1 + r.Intn(3)), -int32(r.Intn(3)), -int32(r.Intn(3))}
		if base[1] == 0 && base[2] == 0 && r.Intn(2) == 0 {
			base[2] = -1
		}
	}
	// shared labels so that runs continue across block borders
	shared := []uint64{lg.PickNonZero(r), lg.PickNonZero(r), 0, lg.PickLabel(r)}
	var coordsList [][3]int32
	switch variant {
	case "row", "clip", "negative":
		for k := 0; k < n; k++ {
			coordsList = append(coordsList, [3]int32{base[0] + int32(k), base[1], base[2]})
		}
	case "row-gap":
		coordsList = [][3]int32{base, {base[0] + 1, base[1], base[2]}, {base[0] + 3, base[1], base[2]}}
	case "rows": // ZYX order: same z, next y after the row
		coordsList = [][3]int32{base, {base[0] + 1, base[1], base[2]}, {base[0], base[1] + 1, base[2]}, {base[0] + 1, base[1], base[2] + 1}}
	}
	var pbs []lg.PB
	kindsHere := []string{"runs", "shared", "solid", "halves", "k=3", "mixzero", "twosplit", "k=17"}
	desc := fmt.Sprintf("case=%d stream size=%s variant=%s", ci, lg.SizeStr(size), variant)
	for bi, co := range coordsList {
		kind := kindsHere[r.Intn(len(kindsHere))]
		g := lg.Gen(r, size, kind)
		// paint shared labels over parts of the block, touching the x borders
		paint := r.Intn(4)
		if variant == "clip" && i%10 < 5 {
			paint = 3
		}
		switch paint {
		case 3: // whole sub-blocks of a shared label (single-label sub-blocks inside a multi-label block)
			for sb := 0; sb < len(g.A)/512; sb++ {
				if r.Intn(2) == 0 {
					continue
				}
				gx, gy := size[0]/8, size[1]/8
				sx, sy, sz := sb%gx, (sb/gx)%gy, sb/(gx*gy)
				l := shared[r.Intn(2)]
				for v := 0; v < 512; v++ {
					g.A[(sz*8+v/64)*size[1]*size[0]+(sy*8+(v/8)%8)*size[0]+sx*8+v%8] = l
				}
			}
		case 0:
			for k := range g.A {
				if (k/size[0])%3 != 0 {
					g.A[k] = shared[(k/(size[0]*7))%len(shared)]
				}
			}
		case 1:
			for k := range g.A {
				x := k % size[0]
				if x < 3 || x >= size[0]-5 {
					g.A[k] = shared[(k/size[0])%2]
				}
			}
		}
		if bi == 1 && r.Intn(4) == 0 { // a solid block of the shared label in the middle of the row
			for k := range g.A {
				g.A[k] = shared[0]
			}
		}
		b, err := lg.MakeBlock(g.A, size)
		if err != nil {
			violation(encodeErrKey(size), fmt.Sprintf("MakeBlock refused a legal array (%s): %v", desc, err), map[string]interface{}{"size": size})
			p.Count("blocks_refused_by_encoder", 1)
			return
		}
		pbs = append(pbs, lg.PB{Coord: co, A: g.A, B: b})
		desc += fmt.Sprintf(" %s@(%d,%d,%d)#%s", kind, co[0], co[1], co[2], lg.HashArr(size, g.A)[:8])
	}
	c.Begin(desc)
	lbls := []uint64{shared[0]}
	if r.Intn(2) == 0 {
		lbls = append(lbls, shared[1])
	}
	if r.Intn(3) == 0 {
		for _, l := range lg.LabelsOf(pbs[0].A) {
			if l != 0 && len(lbls) < 5 {
				lbls = append(lbls, l)
			}
		}
	}
	var clip *lg.Clip
	if variant == "clip" {
		nx, ny, nz := int32(size[0]), int32(size[1]), int32(size[2])
		// every streamed block intersects the box (the server only streams blocks within the bounds)
		lo := [3]int32{base[0]*nx + int32(r.Intn(size[0])), base[1]*ny + int32(r.Intn(size[1])), base[2]*nz + int32(r.Intn(size[2]))}
		hi := [3]int32{(base[0]+int32(n)-1)*nx + int32(r.Intn(size[0])), lo[1] + int32(r.Intn(int(base[1]*ny+ny-lo[1]))), lo[2] + int32(r.Intn(int(base[2]*nz+nz-lo[2])))}
		if hi[0] < lo[0] {
			hi[0] = lo[0]
		}
		if i%10 < 5 && hi[0]%8 == 7 {
			hi[0] -= 3 // maxx strictly inside an 8-voxel sub-block
			if hi[0] < lo[0] {
				lo[0] = hi[0]
			}
		}
		clip = &lg.Clip{Min: lo, Max: hi}
	}
	nfg := 0
	set := lg.SetOf(lbls)
	for _, pb := range pbs {
		for _, v := range pb.A {
			if _, ok := set[v]; ok {
				nfg++
			}
		}
	}
	p.Case("stream|"+desc, nfg > 0)
	p.Seen("stream_variants", variant)
	p.Count("streams", 1)
	p.Count("stream_blocks", len(pbs))
	wit := map[string]interface{}{"type": "stream", "size": size, "variant": variant, "desc": desc, "labels": lbls}
	if clip != nil {
		wit["clip"] = clip
	}
	if i == 0 {
		p.Sample(map[string]interface{}{"type": "stream", "desc": desc, "labels": len(lbls), "foreground_voxels": nfg})
	}
	suffix := variant
	if variant == "negative" {
		suffix = "negative-block-coord"
	}
	if variant == "clip" {
		suffix = "exact-bounds"
	}
	if variant == "row" || variant == "row-gap" || variant == "rows" {
		suffix = "multiblock"
	}
	for _, f := range lg.CheckRLEs(size, pbs, lbls, clip) {
		key := "rle:" + suffix
		if f.Tag != "" {
			key += ":" + f.Tag
		}
		violation(key, f.What+" | "+desc, wit)
	}
	if clip == nil {
		for _, f := range lg.CheckBinaryBlocks(size, pbs, lbls) {
			violation("binaryblocks:"+suffix, f.What+" | "+desc, wit)
		}
	}
}

// subvolCase: SubvolumeToBlock at every block index of a block-aligned subvolume.
func subvolCase(c *lg.Case, size [3]int) {
	ci, r := c.CI, c.R
	violation := c.Violation
	m := [3]int{1 + r.Intn(3), 1 + r.Intn(3), 1 + r.Intn(3)}
	for m[0]*m[1]*m[2]*size[0]*size[1]*size[2] > 1<<21 {
		m[r.Intn(3)] = 1
	}
	b0 := [3]int{r.Intn(7) - 3, r.Intn(7) - 3, r.Intn(7) - 3}
	vs := [3]int{m[0] * size[0], m[1] * size[1], m[2] * size[2]}
	vol := make([]uint64, vs[0]*vs[1]*vs[2])
	kinds := lg.Kinds()
	desc := fmt.Sprintf("case=%d subvol block=%s blocks=%dx%dx%d first_block=(%d,%d,%d)", ci, lg.SizeStr(size), m[0], m[1], m[2], b0[0], b0[1], b0[2])
	c.Begin(desc)
	exp := map[[3]int][]uint64{}
	var order [][3]int
	for bz := 0; bz < m[2]; bz++ {
		for by := 0; by < m[1]; by++ {
			for bx := 0; bx < m[0]; bx++ {
				g := lg.Gen(r, size, kinds[r.Intn(len(kinds))])
				exp[[3]int{bx, by, bz}] = g.A
				order = append(order, [3]int{bx, by, bz})
				for z := 0; z < size[2]; z++ {
					for y := 0; y < size[1]; y++ {
						src := g.A[z*size[1]*size[0]+y*size[0]:][:size[0]]
						dst := vol[(bz*size[2]+z)*vs[1]*vs[0]+(by*size[1]+y)*vs[0]+bx*size[0]:]
						copy(dst, src)
					}
				}
			}
		}
	}
	raw := lg.ToBytes(vol)
	start := dvid.Point3d{int32(b0[0] * size[0]), int32(b0[1] * size[1]), int32(b0[2] * size[2])}
	sv := dvid.NewSubvolume(start, lg.P3(vs))
	for _, pos := range order {
		want := exp[pos]
		idx := dvid.IndexZYX{int32(b0[0] + pos[0]), int32(b0[1] + pos[1]), int32(b0[2] + pos[2])}
		key := fmt.Sprintf("subvol|%s|%v|%v|%s", lg.SizeStr(size), m, pos, lg.HashArr(size, want))
		_, nl := lg.Stats(size, want)
		p.Case(key, nl >= 2)
		p.Count("subvolume_blocks", 1)
		wit := map[string]interface{}{"type": "subvol", "size": size, "blocks": m, "first_block": b0, "block_pos": pos}
		var b *labels.Block
		var err error
		if pn := lg.Try(func() { b, err = labels.SubvolumeToBlock(sv, raw, idx, lg.P3(size)) }); pn != "" {
			violation("subvolume:panic", fmt.Sprintf("SubvolumeToBlock panicked at block %v: %s | %s", pos, pn, desc), wit)
			continue
		}
		if err != nil {
			key := "subvolume:error"
			if k := encodeErrKey(size); k != "encode:error" {
				key = k
			}
			violation(key, fmt.Sprintf("SubvolumeToBlock refused block %v inside the subvolume: %v | %s", pos, err, desc), wit)
			continue
		}
		for _, f := range lg.CheckCodec(b, want, size) {
			violation("subvolume:"+f.View, fmt.Sprintf("SubvolumeToBlock at block %v of the subvolume: %s | %s", pos, f.What, desc), wit)
		}
	}
	if size == lg.AllSizes()[int(p.Seed%1000)%64] {
		p.Sample(map[string]interface{}{"type": "subvol", "desc": desc})
	}
	p.Seen("subvolume_shapes", fmt.Sprint(m))
}
