// probe-c06: pure key-function probe for property C06.
//
// Generates "universes" of (instance id, tkey, version id, client id, tombstone marker) tuples, builds their storage
// keys with the exported storage.DataContext functions (several construction routes), and checks
//   - route agreement: every construction route yields the same key for the same tuple,
//   - round trip: instance, tkey, version, client and marker are recovered from the key by every parsing function,
//   - injectivity: distinct tuples never share a key; distinct datum arguments never share a tkey,
//   - order: sorting the keys with bytes.Compare (what Badger does) yields a sequence that is non-decreasing in
//     (instance, tkey, version), hence each instance and each datum forms one contiguous run,
//   - ranges: KeyRange, DataInstanceKeyRange, the DeleteAll range, TKeyClassRange, the class range
//     MinVersionKey(MinTKey(c))..MaxVersionKey(MaxTKey(c)), MinVersionKey(tk)..MaxVersionKey(tk) and tkey intervals
//     contain no foreign key (violation) and all own keys (violation, except where id+1 wraps at instance
//     0xFFFFFFFF, which is only counted).
//
// The tkeys of one instance come from ONE data type's own constructors (as in a real store).
// The oracle never builds a key itself: it only compares tuples with tuples and bytes with bytes.
//
// A separate, small population uses keyvalue / neuronjson / annotation-tag names with embedded 0x00.  Their tkeys
// are not prefix free ("a\x00" is a byte prefix of "a\x00b\x00"); what happens there is counted (nul:*) and decided
// by the live part of the driver (key "tkey-embedded-nul"), never reported from here.
package main

import (
	"bytes"
	"encoding/binary"
	"encoding/hex"
	"fmt"
	"math"
	"math/rand"
	"sort"
	"strconv"

	"verif/harness/internal/probe"

	"github.com/janelia-flyem/dvid/datatype/annotation"
	"github.com/janelia-flyem/dvid/datatype/imageblk"
	"github.com/janelia-flyem/dvid/datatype/imagetile"
	"github.com/janelia-flyem/dvid/datatype/keyvalue"
	"github.com/janelia-flyem/dvid/datatype/labelarray"
	"github.com/janelia-flyem/dvid/datatype/labelblk"
	"github.com/janelia-flyem/dvid/datatype/labelmap"
	"github.com/janelia-flyem/dvid/datatype/labelsz"
	"github.com/janelia-flyem/dvid/datatype/labelvol"
	"github.com/janelia-flyem/dvid/datatype/neuronjson"
	"github.com/janelia-flyem/dvid/datatype/tarsupervoxels"
	"github.com/janelia-flyem/dvid/dvid"
	"github.com/janelia-flyem/dvid/storage"
)

// fake is the smallest dvid.Data a storage.DataContext needs for key construction.
type fake struct {
	dvid.Data
	id dvid.InstanceID
}

func (f *fake) InstanceID() dvid.InstanceID { return f.id }
func (f *fake) DataName() dvid.InstanceName { return "fake" }

var boundary32 = []uint32{0, 1, 2, 0xFF, 0x100, 0xFFFF, 0x10000, 0x7FFFFFFF, 0x80000000, 0xFFFFFFFE, 0xFFFFFFFF}
var boundaryI32 = []int32{math.MinInt32, math.MinInt32 + 1, -65536, -256, -255, -2, -1, 0, 1, 2, 255, 256, 65536, math.MaxInt32 - 1, math.MaxInt32}
var boundary64 = []uint64{0, 1, 2, 0xFF, 0x100, 0xFFFFFFFF, 0x100000000, 0x7FFFFFFFFFFFFFFF, 0x8000000000000000, 0xFFFFFFFFFFFFFFFE, 0xFFFFFFFFFFFFFFFF}

// hostile strings without 0x00
var hostileStr = []string{"a", "aa", "ab", "a0", "b", "k1", "k10", "k100", "zz", "\x01", "\x01\x01", "\xff", "\xff\xff", "a\xff", "a\x01",
	"a\x03", "a\x4f", "1", "10", "100", "18446744073709551615", "a b", "a%00b", "\xb1\x01a", "\x01x",
	"a\x01\x01\x01\x01\x01\x01\x01\x01\x03", "a\xff\xff\xff\xff\xff\xff\xff\xff\xff", "a\xff\xff\xff\xff\xff\xff\xff\xff\x4f"}

// hostile strings with embedded 0x00 (separate population)
var nulStr = []string{"a\x00b", "a\x00", "\x00", "\x00a", "a\x00\x00", "a\x00\x00\x00\x01\x00\x00\x00\x00\x03", "a\x00\xff", "k1\x000", "a\x00b\x00c"}

func pick32(r *rand.Rand) uint32 {
	switch r.Intn(10) {
	case 0, 1, 2, 3, 4:
		return boundary32[r.Intn(len(boundary32))]
	case 5:
		return boundary32[r.Intn(len(boundary32))] + uint32(r.Intn(3)) - 1 // neighbours, wraps on purpose
	case 6:
		return uint32(r.Intn(8))
	case 7:
		return uint32(1) << uint(r.Intn(32))
	default:
		return r.Uint32()
	}
}

func pickI32(r *rand.Rand) int32 {
	switch r.Intn(8) {
	case 0, 1, 2, 3:
		return boundaryI32[r.Intn(len(boundaryI32))]
	case 4:
		return int32(r.Intn(7)) - 3
	default:
		return int32(r.Uint32())
	}
}

func pick64(r *rand.Rand) uint64 {
	switch r.Intn(8) {
	case 0, 1, 2, 3:
		return boundary64[r.Intn(len(boundary64))]
	case 4:
		return boundary64[r.Intn(len(boundary64))] + uint64(r.Intn(3)) - 1
	case 5:
		return uint64(r.Intn(10))
	default:
		return r.Uint64()
	}
}

// pools holds the small argument pools of one instance, so that datum arguments cluster (prefix-related
// strings, neighbouring coordinates and labels) instead of being scattered.
type pools struct {
	strs   []string
	ints   []int32
	labels []uint64
	u32s   []uint32
	ext    string
}

func randBytesNoNul(r *rand.Rand, n int) string {
	b := make([]byte, n)
	for i := range b {
		b[i] = byte(1 + r.Intn(255))
	}
	return string(b)
}

func newPools(r *rand.Rand, nul bool) *pools {
	p := &pools{}
	src := hostileStr
	n := 3 + r.Intn(5)
	for i := 0; i < n; i++ {
		var s string
		if r.Intn(5) == 0 {
			s = randBytesNoNul(r, 1+r.Intn(12))
		} else {
			s = src[r.Intn(len(src))]
		}
		p.strs = append(p.strs, s)
		// prefix-related partners
		for j := r.Intn(3); j > 0; j-- {
			p.strs = append(p.strs, s+randBytesNoNul(r, 1+r.Intn(2)))
		}
		if len(s) > 1 && r.Intn(2) == 0 {
			p.strs = append(p.strs, s[:len(s)-1])
		}
	}
	if r.Intn(6) == 0 {
		p.strs = append(p.strs, randBytesNoNul(r, 200+r.Intn(200)))
	}
	if nul {
		m := 2 + r.Intn(3)
		for i := 0; i < m; i++ {
			s := nulStr[r.Intn(len(nulStr))]
			p.strs = append(p.strs, s)
			// the strings it is a byte-extension of
			if j := bytes.IndexByte([]byte(s), 0); j > 0 {
				p.strs = append(p.strs, s[:j])
			}
			p.strs = append(p.strs, s+randBytesNoNul(r, 1))
		}
	}
	for i := 3 + r.Intn(4); i > 0; i-- {
		v := pickI32(r)
		p.ints = append(p.ints, v)
		if r.Intn(2) == 0 {
			p.ints = append(p.ints, v+1) // wraps on purpose
		}
	}
	for i := 3 + r.Intn(4); i > 0; i-- {
		v := pick64(r)
		p.labels = append(p.labels, v)
		if r.Intn(2) == 0 {
			p.labels = append(p.labels, v+1)
		}
	}
	for i := 2 + r.Intn(3); i > 0; i-- {
		p.u32s = append(p.u32s, pick32(r))
	}
	p.ext = []string{"dat", "data", "swc", "x.y", "", "1"}[r.Intn(6)]
	return p
}

func (p *pools) str(r *rand.Rand) string { return p.strs[r.Intn(len(p.strs))] }
func (p *pools) nonEmptyStr(r *rand.Rand) string {
	for i := 0; i < 20; i++ {
		if s := p.str(r); s != "" {
			return s
		}
	}
	return "x"
}
func (p *pools) i32(r *rand.Rand) int32   { return p.ints[r.Intn(len(p.ints))] }
func (p *pools) lab(r *rand.Rand) uint64  { return p.labels[r.Intn(len(p.labels))] }
func (p *pools) u32(r *rand.Rand) uint32  { return p.u32s[r.Intn(len(p.u32s))] }
func (p *pools) u8(r *rand.Rand) uint8    { return []uint8{0, 1, 2, 7, 127, 128, 255}[r.Intn(7)] }
func (p *pools) pt(r *rand.Rand) [3]int32 { return [3]int32{p.i32(r), p.i32(r), p.i32(r)} }

// datum is one generated type-specific key with the canonical description of the arguments it was built from.
type datum struct {
	tk  storage.TKey
	arg string // canonical argument description; equal args <=> same datum
	bad string // decode / constructor disagreement found while generating ("" = fine)
}

type family struct {
	name   string
	strKey bool // has string-named keys (eligible for the embedded-NUL population)
	gen    func(r *rand.Rand, p *pools) datum
}

func be32(v uint32) []byte { b := make([]byte, 4); binary.BigEndian.PutUint32(b, v); return b }

func zyxArg(pt [3]int32) string { return fmt.Sprintf("%d,%d,%d", pt[0], pt[1], pt[2]) }

func sameTK(a, b storage.TKey) bool { return bytes.Equal(a, b) }

var families = []family{
	{"keyvalue", true, func(r *rand.Rand, p *pools) datum {
		s := p.str(r)
		tk, err := keyvalue.NewTKey(s)
		d := datum{tk: tk, arg: "kv:" + hex.EncodeToString([]byte(s))}
		if err != nil {
			d.bad = "NewTKey error: " + err.Error()
		} else if s != "" {
			if got, err := keyvalue.DecodeTKey(tk); err != nil || got != s {
				d.bad = fmt.Sprintf("keyvalue.DecodeTKey(NewTKey(%q)) = %q, %v", s, got, err)
			}
		}
		return d
	}},
	{"neuronjson", true, func(r *rand.Rand, p *pools) datum {
		switch r.Intn(8) {
		case 0:
			tk, _ := neuronjson.NewJSONSchemaTKey()
			return datum{tk: tk, arg: "nj:jsonschema"}
		case 1:
			tk, _ := neuronjson.NewSchemaTKey()
			return datum{tk: tk, arg: "nj:schema"}
		case 2:
			tk, _ := neuronjson.NewSchemaBatchTKey()
			return datum{tk: tk, arg: "nj:schemabatch"}
		}
		s := p.str(r)
		if r.Intn(3) == 0 {
			s = strconv.FormatUint(p.lab(r), 10)
		}
		tk, err := neuronjson.NewTKey(s)
		d := datum{tk: tk, arg: "nj:" + hex.EncodeToString([]byte(s))}
		if err != nil {
			d.bad = "NewTKey error: " + err.Error()
		} else if s != "" {
			if got, err := neuronjson.DecodeTKey(tk); err != nil || got != s {
				d.bad = fmt.Sprintf("neuronjson.DecodeTKey(NewTKey(%q)) = %q, %v", s, got, err)
			}
		}
		return d
	}},
	{"annotation", true, func(r *rand.Rand, p *pools) datum {
		switch r.Intn(3) {
		case 0:
			s := p.nonEmptyStr(r)
			tk, err := annotation.NewTagTKey(annotation.Tag(s))
			d := datum{tk: tk, arg: "an:tag:" + hex.EncodeToString([]byte(s))}
			if err != nil {
				d.bad = "NewTagTKey error: " + err.Error()
			} else if got, err := annotation.DecodeTagTKey(tk); err != nil || string(got) != s {
				d.bad = fmt.Sprintf("annotation.DecodeTagTKey(NewTagTKey(%q)) = %q, %v", s, got, err)
			}
			return d
		case 1:
			l := p.lab(r)
			tk := annotation.NewLabelTKey(l)
			d := datum{tk: tk, arg: fmt.Sprintf("an:label:%d", l)}
			if got, err := annotation.DecodeLabelTKey(tk); err != nil || got != l {
				d.bad = fmt.Sprintf("annotation.DecodeLabelTKey(NewLabelTKey(%d)) = %d, %v", l, got, err)
			}
			return d
		}
		pt := p.pt(r)
		tk := annotation.NewBlockTKey(dvid.ChunkPoint3d{pt[0], pt[1], pt[2]})
		d := datum{tk: tk, arg: "an:block:" + zyxArg(pt)}
		if got, err := annotation.DecodeBlockTKey(tk); err != nil || got != (dvid.ChunkPoint3d{pt[0], pt[1], pt[2]}) {
			d.bad = fmt.Sprintf("annotation.DecodeBlockTKey(NewBlockTKey(%v)) = %v, %v", pt, got, err)
		}
		return d
	}},
	{"labelmap", false, func(r *rand.Rand, p *pools) datum {
		switch r.Intn(6) {
		case 0, 1:
			pt, sc := p.pt(r), p.u8(r)
			idx := dvid.IndexZYX{pt[0], pt[1], pt[2]}
			tk := labelmap.NewBlockTKey(sc, &idx)
			d := datum{tk: tk, arg: fmt.Sprintf("lm:block:%d:%s", sc, zyxArg(pt))}
			if tk2 := labelmap.NewBlockTKeyByCoord(sc, idx.ToIZYXString()); !sameTK(tk, tk2) {
				d.bad = fmt.Sprintf("labelmap.NewBlockTKey and NewBlockTKeyByCoord disagree for scale %d %v: %x vs %x", sc, pt, tk, tk2)
			} else if gs, gi, err := labelmap.DecodeBlockTKey(tk); err != nil || gs != sc || *gi != idx {
				d.bad = fmt.Sprintf("labelmap.DecodeBlockTKey(NewBlockTKey(%d,%v)) = %d,%v,%v", sc, pt, gs, gi, err)
			}
			return d
		case 2:
			l := p.lab(r)
			tk := labelmap.NewLabelIndexTKey(l)
			d := datum{tk: tk, arg: fmt.Sprintf("lm:index:%d", l)}
			if got, err := labelmap.DecodeLabelIndexTKey(tk); err != nil || got != l {
				d.bad = fmt.Sprintf("labelmap.DecodeLabelIndexTKey(NewLabelIndexTKey(%d)) = %d, %v", l, got, err)
			}
			return d
		case 3:
			l := p.lab(r)
			tk := labelmap.NewAffinitiesTKey(l)
			d := datum{tk: tk, arg: fmt.Sprintf("lm:aff:%d", l)}
			if got, err := labelmap.DecodeAffinitiesTKey(tk); err != nil || got != l {
				d.bad = fmt.Sprintf("labelmap.DecodeAffinitiesTKey(NewAffinitiesTKey(%d)) = %d, %v", l, got, err)
			}
			return d
		case 4:
			// mirrors of the unexported max-label / next-label keys: storage.NewTKey(class, nil)
			c := []storage.TKeyClass{237, 238, 239}[r.Intn(3)]
			return datum{tk: storage.NewTKey(c, nil), arg: fmt.Sprintf("lm:const:%d", c)}
		}
		// mirror of the unexported mutation-cache key: label, MaxUint64-mutid
		l, m := p.lab(r), p.lab(r)
		buf := make([]byte, 16)
		binary.BigEndian.PutUint64(buf[0:8], l)
		binary.BigEndian.PutUint64(buf[8:16], math.MaxUint64-m)
		return datum{tk: storage.NewTKey(240, buf), arg: fmt.Sprintf("lm:mutcache:%d:%d", l, m)}
	}},
	{"labelarray", false, func(r *rand.Rand, p *pools) datum {
		switch r.Intn(4) {
		case 0, 1:
			pt, sc := p.pt(r), p.u8(r)
			idx := dvid.IndexZYX{pt[0], pt[1], pt[2]}
			tk := labelarray.NewBlockTKey(sc, &idx)
			d := datum{tk: tk, arg: fmt.Sprintf("la:block:%d:%s", sc, zyxArg(pt))}
			if tk2 := labelarray.NewBlockTKeyByCoord(sc, idx.ToIZYXString()); !sameTK(tk, tk2) {
				d.bad = fmt.Sprintf("labelarray.NewBlockTKey and NewBlockTKeyByCoord disagree for scale %d %v", sc, pt)
			} else if gs, gi, err := labelarray.DecodeBlockTKey(tk); err != nil || gs != sc || *gi != idx {
				d.bad = fmt.Sprintf("labelarray.DecodeBlockTKey(NewBlockTKey(%d,%v)) = %d,%v,%v", sc, pt, gs, gi, err)
			}
			return d
		case 2:
			l := p.lab(r)
			tk := labelarray.NewLabelIndexTKey(l)
			d := datum{tk: tk, arg: fmt.Sprintf("la:index:%d", l)}
			if got, err := labelarray.DecodeLabelIndexTKey(tk); err != nil || got != l {
				d.bad = fmt.Sprintf("labelarray.DecodeLabelIndexTKey(NewLabelIndexTKey(%d)) = %d, %v", l, got, err)
			}
			return d
		}
		c := []storage.TKeyClass{237, 238}[r.Intn(2)]
		return datum{tk: storage.NewTKey(c, nil), arg: fmt.Sprintf("la:const:%d", c)}
	}},
	{"imageblk", false, func(r *rand.Rand, p *pools) datum {
		if r.Intn(8) == 0 {
			return datum{tk: imageblk.MetaTKey(), arg: "ib:meta"}
		}
		pt := p.pt(r)
		idx := dvid.IndexZYX{pt[0], pt[1], pt[2]}
		tk := imageblk.NewTKey(&idx)
		d := datum{tk: tk, arg: "ib:block:" + zyxArg(pt)}
		if tk2 := imageblk.NewTKeyByCoord(idx.ToIZYXString()); !sameTK(tk, tk2) {
			d.bad = fmt.Sprintf("imageblk.NewTKey and NewTKeyByCoord disagree for %v", pt)
		} else if gi, err := imageblk.DecodeTKey(tk); err != nil || *gi != idx {
			d.bad = fmt.Sprintf("imageblk.DecodeTKey(NewTKey(%v)) = %v, %v", pt, gi, err)
		}
		return d
	}},
	{"labelblk", false, func(r *rand.Rand, p *pools) datum {
		pt := p.pt(r)
		idx := dvid.IndexZYX{pt[0], pt[1], pt[2]}
		tk := labelblk.NewTKey(&idx)
		d := datum{tk: tk, arg: "lb:block:" + zyxArg(pt)}
		if tk2 := labelblk.NewTKeyByCoord(idx.ToIZYXString()); !sameTK(tk, tk2) {
			d.bad = fmt.Sprintf("labelblk.NewTKey and NewTKeyByCoord disagree for %v", pt)
		} else if gi, err := labelblk.DecodeTKey(tk); err != nil || *gi != idx {
			d.bad = fmt.Sprintf("labelblk.DecodeTKey(NewTKey(%v)) = %v, %v", pt, gi, err)
		}
		return d
	}},
	{"labelvol", false, func(r *rand.Rand, p *pools) datum {
		if r.Intn(8) == 0 {
			c := []storage.TKeyClass{228, 229}[r.Intn(2)]
			return datum{tk: storage.NewTKey(c, nil), arg: fmt.Sprintf("lv:const:%d", c)}
		}
		l, pt := p.lab(r), p.pt(r)
		idx := dvid.IndexZYX{pt[0], pt[1], pt[2]}
		tk := labelvol.NewTKey(l, idx.ToIZYXString())
		d := datum{tk: tk, arg: fmt.Sprintf("lv:%d:%s", l, zyxArg(pt))}
		if gl, gb, err := labelvol.DecodeTKey(tk); err != nil || gl != l || gb != idx.ToIZYXString() {
			d.bad = fmt.Sprintf("labelvol.DecodeTKey(NewTKey(%d,%v)) = %d,%x,%v", l, pt, gl, gb, err)
		}
		return d
	}},
	{"labelsz", false, func(r *rand.Rand, p *pools) datum {
		it := labelsz.IndexType([]uint8{0, 1, 2, 3, 4, 5, 6, 255}[r.Intn(8)])
		l := p.lab(r)
		if r.Intn(2) == 0 {
			sz := p.u32(r)
			tk := labelsz.NewTypeSizeLabelTKey(it, sz, l)
			d := datum{tk: tk, arg: fmt.Sprintf("ls:tsl:%d:%d:%d", it, sz, l)}
			if gi, gs, gl, err := labelsz.DecodeTypeSizeLabelTKey(tk); err != nil || gi != it || gs != sz || gl != l {
				d.bad = fmt.Sprintf("labelsz.DecodeTypeSizeLabelTKey(New(%d,%d,%d)) = %d,%d,%d,%v", it, sz, l, gi, gs, gl, err)
			}
			return d
		}
		tk := labelsz.NewTypeLabelTKey(it, l)
		d := datum{tk: tk, arg: fmt.Sprintf("ls:tl:%d:%d", it, l)}
		if gi, gl, err := labelsz.DecodeTypeLabelTKey(tk); err != nil || gi != it || gl != l {
			d.bad = fmt.Sprintf("labelsz.DecodeTypeLabelTKey(New(%d,%d)) = %d,%d,%v", it, l, gi, gl, err)
		}
		return d
	}},
	{"roi", false, func(r *rand.Rand, p *pools) datum {
		// mirror of the unexported roi.indexRLE.Bytes(): IndexZYX bytes followed by the big-endian span
		pt, span := p.pt(r), p.u32(r)
		idx := dvid.IndexZYX{pt[0], pt[1], pt[2]}
		return datum{tk: storage.NewTKey(90, append(idx.Bytes(), be32(span)...)), arg: fmt.Sprintf("roi:%s:%d", zyxArg(pt), span)}
	}},
	{"tarsupervoxels", false, func(r *rand.Rand, p *pools) datum {
		l := p.lab(r)
		tk, err := tarsupervoxels.NewTKey(l, p.ext) // the extension is a per-instance constant
		d := datum{tk: tk, arg: fmt.Sprintf("tsv:%d.%s", l, p.ext)}
		if err != nil {
			d.bad = "NewTKey error: " + err.Error()
		}
		return d
	}},
	{"imagetile", false, func(r *rand.Rand, p *pools) datum {
		pt, sc := p.pt(r), p.u8(r)
		pi := r.Intn(3)
		plane := []dvid.DataShape{dvid.XY, dvid.XZ, dvid.YZ}[pi]
		tk, err := imagetile.NewTKey(dvid.ChunkPoint3d{pt[0], pt[1], pt[2]}, plane, imagetile.Scaling(sc))
		d := datum{tk: tk, arg: fmt.Sprintf("it:%d:%d:%s", pi, sc, zyxArg(pt))}
		if err != nil {
			d.bad = "NewTKey error: " + err.Error()
		} else if gt, gp, gs, err := imagetile.DecodeTKey(tk); err != nil || gt != (dvid.ChunkPoint3d{pt[0], pt[1], pt[2]}) || !gp.Equals(plane) || uint8(gs) != sc {
			d.bad = fmt.Sprintf("imagetile.DecodeTKey(NewTKey(%v,%v,%d)) = %v,%v,%d,%v", pt, plane, sc, gt, gp, gs, err)
		}
		return d
	}},
}

// entry is one key of a universe.  space 1 = data key built from the tuple; 0 = metadata key, 2 = blob key (foreign spaces).
type entry struct {
	space  int
	inst   uint32
	tk     []byte
	ver    uint32
	client uint32
	tomb   bool
	fam    string
	arg    string
	key    storage.Key
	route  int
}

func (e *entry) id() string {
	return fmt.Sprintf("%d|%x|%d|%d|%v", e.inst, e.tk, e.ver, e.client, e.tomb)
}

func (e *entry) witness() map[string]interface{} {
	return map[string]interface{}{"space": e.space, "instance": e.inst, "tkey": hex.EncodeToString(e.tk), "version": e.ver, "client": e.client,
		"tombstone": e.tomb, "family": e.fam, "datum": e.arg, "key": hex.EncodeToString(e.key), "route": routeNames[e.route]}
}

var routeNames = []string{"ConstructKey/TombstoneKey", "ConstructKeyVersion/TombstoneKeyVersion", "wrong ids + UpdateDataKey",
	"wrong ids + ChangeDataKeyInstance + ChangeDataKeyVersion", "SplitKey + MergeKey", "wrong instance + UpdateInstance"}

const nRoutes = 6

// buildKey constructs the key of a tuple by one of the routes DVID itself uses.  tk is passed with spare capacity so
// that an append-into-argument bug would show up as a changed neighbour.
func buildKey(e *entry, route int, r *rand.Rand) (storage.Key, error) {
	inst, ver, client := dvid.InstanceID(e.inst), dvid.VersionID(e.ver), dvid.ClientID(e.client)
	tkbuf := make([]byte, len(e.tk), len(e.tk)+24)
	copy(tkbuf, e.tk)
	guard := tkbuf[:cap(tkbuf)]
	for i := len(e.tk); i < len(guard); i++ {
		guard[i] = 0xA5
	}
	tk := storage.TKey(tkbuf)
	var k storage.Key
	var err error
	switch route {
	case 0:
		ctx := storage.NewDataContext(&fake{id: inst}, ver)
		if e.tomb {
			k = ctx.TombstoneKey(tk)
		} else {
			k = ctx.ConstructKey(tk)
		}
	case 1:
		ctx := storage.NewDataContext(&fake{id: inst}, dvid.VersionID(pick32(r)))
		if e.tomb {
			k = ctx.TombstoneKeyVersion(tk, ver)
		} else {
			k = ctx.ConstructKeyVersion(tk, ver)
		}
	case 2:
		ctx := storage.NewDataContext(&fake{id: dvid.InstanceID(pick32(r))}, dvid.VersionID(pick32(r)))
		if e.tomb {
			k = ctx.TombstoneKey(tk)
		} else {
			k = ctx.ConstructKey(tk)
		}
		err = storage.UpdateDataKey(k, inst, ver, client)
	case 3:
		ctx := storage.NewDataContext(&fake{id: dvid.InstanceID(pick32(r))}, dvid.VersionID(pick32(r)))
		if e.tomb {
			k = ctx.TombstoneKey(tk)
		} else {
			k = ctx.ConstructKey(tk)
		}
		if err = storage.ChangeDataKeyInstance(k, inst); err == nil {
			err = storage.ChangeDataKeyVersion(k, ver)
		}
	case 4:
		ctx := storage.NewDataContext(&fake{id: inst}, ver)
		var unv storage.Key
		var verk []byte
		unv, verk, err = ctx.SplitKey(tk)
		if err == nil {
			k = storage.MergeKey(unv, verk)
			if e.tomb {
				// SplitKey always yields the data marker; the tombstone twin differs in the last byte only
				k2 := ctx.TombstoneKey(tk)
				if len(k2) != len(k) || !bytes.Equal(k2[:len(k2)-1], k[:len(k)-1]) {
					return nil, fmt.Errorf("TombstoneKey and MergeKey(SplitKey) differ before the marker byte: %x vs %x", k2, k)
				}
				k = k2
			}
		}
	case 5:
		wrong := storage.NewDataContext(&fake{id: dvid.InstanceID(pick32(r))}, ver)
		if e.tomb {
			k = wrong.TombstoneKey(tk)
		} else {
			k = wrong.ConstructKey(tk)
		}
		err = storage.NewDataContext(&fake{id: inst}, 0).UpdateInstance(k)
	}
	if err != nil {
		return nil, err
	}
	// routes that cannot set the client id themselves
	if route != 2 && client != 0 {
		if err := storage.UpdateDataKey(k, inst, ver, client); err != nil {
			return nil, err
		}
	}
	if !bytes.Equal(tkbuf, e.tk) {
		return nil, fmt.Errorf("key construction modified the caller's tkey: %x -> %x", e.tk, tkbuf)
	}
	for i := len(e.tk); i < len(guard); i++ {
		if guard[i] != 0xA5 {
			return nil, fmt.Errorf("key construction wrote into the spare capacity of the caller's tkey")
		}
	}
	return k, nil
}

type probeState struct {
	p        *probe.P
	r        *rand.Rand
	sampled  int
	nulShown map[string]bool
}

func (s *probeState) viol(nul bool, class, what string, witness interface{}) {
	if nul {
		s.p.Count("nul:"+class, 1)
		if !s.nulShown[class] {
			s.nulShown[class] = true
			s.p.Sample(map[string]interface{}{"population": "embedded-nul (observation only)", "class": class, "what": what, "witness": witness})
		}
		return
	}
	s.p.Violation("pure:"+class, what, witness)
}

// roundTrip checks every exported parsing function on one data key.
func (s *probeState) roundTrip(e *entry) {
	k := e.key
	bad := func(fn, what string) {
		s.p.Violation("pure:roundtrip:"+fn, fmt.Sprintf("%s on the key of tuple (instance %d, tkey %x, version %d, client %d, tombstone %v): %s", fn, e.inst, e.tk, e.ver, e.client, e.tomb, what), e.witness())
	}
	if tk, err := storage.TKeyFromKey(k); err != nil || !bytes.Equal(tk, e.tk) {
		bad("TKeyFromKey", fmt.Sprintf("got %x, %v", tk, err))
	}
	if i, v, c, err := storage.DataKeyToLocalIDs(k); err != nil || uint32(i) != e.inst || uint32(v) != e.ver || uint32(c) != e.client {
		bad("DataKeyToLocalIDs", fmt.Sprintf("got instance %d version %d client %d, %v", i, v, c, err))
	}
	any := storage.NewDataContext(&fake{id: dvid.InstanceID(pick32(s.r))}, dvid.VersionID(pick32(s.r)))
	if v, err := any.VersionFromKey(k); err != nil || uint32(v) != e.ver {
		bad("VersionFromKey", fmt.Sprintf("got %d, %v", v, err))
	}
	if v, err := storage.VersionFromDataKey(k); err != nil || uint32(v) != e.ver {
		bad("VersionFromDataKey", fmt.Sprintf("got %d, %v", v, err))
	}
	if c, err := any.ClientFromKey(k); err != nil || uint32(c) != e.client {
		bad("ClientFromKey", fmt.Sprintf("got %d, %v", c, err))
	}
	if i, err := any.InstanceFromKey(k); err != nil || uint32(i) != e.inst {
		bad("InstanceFromKey", fmt.Sprintf("got %d, %v", i, err))
	}
	if k.IsTombstone() != e.tomb {
		bad("IsTombstone", fmt.Sprintf("got %v", k.IsTombstone()))
	}
	if !k.IsDataKey() || k.IsMetadataKey() || k.IsBlobKey() {
		bad("IsDataKey", fmt.Sprintf("IsDataKey=%v IsMetadataKey=%v IsBlobKey=%v", k.IsDataKey(), k.IsMetadataKey(), k.IsBlobKey()))
	}
	own := storage.NewDataContext(&fake{id: dvid.InstanceID(e.inst)}, dvid.VersionID(e.ver))
	unv, verk, err := storage.SplitKey(k)
	if err != nil || !bytes.Equal(storage.MergeKey(append(storage.Key{}, unv...), verk), k) {
		bad("SplitKey", fmt.Sprintf("MergeKey(SplitKey(k)) != k (%x | %x, %v)", unv, verk, err))
	} else {
		if p := own.UnversionedKeyPrefix(e.tk); !bytes.Equal(p, unv) {
			bad("UnversionedKeyPrefix", fmt.Sprintf("got %x, SplitKey's unversioned part is %x", p, unv))
		}
		if uk, v, err := own.UnversionedKey(e.tk); err != nil || !bytes.Equal(uk, unv) || uint32(v) != e.ver {
			bad("UnversionedKey", fmt.Sprintf("got %x, %d, %v", uk, v, err))
		}
	}
	maxk, _ := own.MaxVersionKey(e.tk)
	if m := storage.MaxVersionDataKeyFromKey(k); !bytes.Equal(m, maxk) {
		bad("MaxVersionDataKeyFromKey", fmt.Sprintf("got %x, MaxVersionKey(tkey) is %x", m, maxk))
	}
	if m, err := storage.MaxVersionDataKey(dvid.InstanceID(e.inst), e.tk); err != nil || !bytes.Equal(m, maxk) {
		bad("MaxVersionDataKey", fmt.Sprintf("got %x, MaxVersionKey(tkey) is %x", m, maxk))
	}
}

type instInfo struct {
	id   uint32
	fam  *family
	pool []datum
}

// tupleLess3 compares what the statement promises an order for: space, instance, tkey, version.
func cmp3(a, b *entry) int {
	if a.space != b.space {
		if a.space < b.space {
			return -1
		}
		return 1
	}
	if a.space != 1 {
		return 0
	}
	if a.inst != b.inst {
		if a.inst < b.inst {
			return -1
		}
		return 1
	}
	if c := bytes.Compare(a.tk, b.tk); c != 0 {
		return c
	}
	if a.ver != b.ver {
		if a.ver < b.ver {
			return -1
		}
		return 1
	}
	return 0
}

func (s *probeState) universe(un int, nul bool, size int) {
	r, p := s.r, s.p
	// ---- instances
	nInst := 3 + r.Intn(8)
	idset := map[uint32]bool{}
	var insts []*instInfo
	addInst := func(id uint32) {
		if idset[id] {
			return
		}
		idset[id] = true
		var f *family
		for {
			f = &families[r.Intn(len(families))]
			if !nul || f.strKey {
				break
			}
		}
		in := &instInfo{id: id, fam: f}
		pl := newPools(r, nul)
		n := 4 + r.Intn(36)
		seen := map[string]bool{}
		for i := 0; i < n; i++ {
			d := f.gen(r, pl)
			if d.bad != "" {
				p.Violation("pure:tkey-constructor:"+f.name, d.bad, map[string]interface{}{"family": f.name, "datum": d.arg, "tkey": hex.EncodeToString(d.tk)})
				continue
			}
			if !seen[d.arg] {
				seen[d.arg] = true
				in.pool = append(in.pool, d)
			}
		}
		if len(in.pool) == 0 {
			in.pool = append(in.pool, datum{tk: storage.NewTKey(9, nil), arg: "fallback"})
		}
		insts = append(insts, in)
	}
	for len(insts) < nInst {
		id := pick32(r)
		addInst(id)
		if r.Intn(2) == 0 {
			addInst(id + 1) // wraps on purpose
		}
		if r.Intn(4) == 0 {
			addInst(id - 1)
		}
	}
	// datum-argument injectivity / determinism inside each instance
	for _, in := range insts {
		byTK := map[string]string{}
		for _, d := range in.pool {
			h := string(d.tk)
			if prev, ok := byTK[h]; ok && prev != d.arg {
				p.Violation("pure:tkey-collision:"+in.fam.name, fmt.Sprintf("distinct datum arguments %s and %s of data type %s share the type-specific key %x", prev, d.arg, in.fam.name, d.tk),
					map[string]interface{}{"family": in.fam.name, "a": prev, "b": d.arg, "tkey": hex.EncodeToString(d.tk)})
			}
			byTK[h] = d.arg
		}
	}
	// ---- id pools
	var vers, clients []uint32
	for i := 2 + r.Intn(7); i > 0; i-- {
		v := pick32(r)
		vers = append(vers, v)
		if r.Intn(3) == 0 {
			vers = append(vers, v+1)
		}
	}
	clients = append(clients, 0, 0, 0)
	for i := r.Intn(4); i > 0; i-- {
		clients = append(clients, pick32(r))
	}
	// ---- tuples
	var es []*entry
	have := map[string]bool{}
	for tries := 0; len(es) < size && tries < size*4; tries++ {
		in := insts[r.Intn(len(insts))]
		d := in.pool[r.Intn(len(in.pool))]
		e := &entry{space: 1, inst: in.id, tk: d.tk, ver: vers[r.Intn(len(vers))], client: clients[r.Intn(len(clients))], tomb: r.Intn(4) == 0, fam: in.fam.name, arg: d.arg}
		id := e.id()
		if have[id] {
			continue
		}
		have[id] = true
		e.route = r.Intn(nRoutes)
		p.Begin(fmt.Sprintf("universe %d tuple %s route %d", un, id, e.route))
		k, err := buildKey(e, e.route, r)
		if err != nil {
			p.Violation("pure:construct:"+routeNames[e.route], fmt.Sprintf("constructing the key of tuple %s via %s failed: %v", id, routeNames[e.route], err), e.witness())
			continue
		}
		e.key = k
		p.Count("route:"+routeNames[e.route], 1)
		// route agreement against a second, different route
		r2 := (e.route + 1 + r.Intn(nRoutes-1)) % nRoutes
		if k2, err := buildKey(e, r2, r); err != nil || !bytes.Equal(k, k2) {
			p.Violation("pure:route-disagree", fmt.Sprintf("tuple %s: %s gives key %x but %s gives %x (%v)", id, routeNames[e.route], k, routeNames[r2], k2, err), e.witness())
		}
		s.roundTrip(e)
		es = append(es, e)
	}
	// foreign spaces: metadata and blob keys that look like data keys
	for i := 0; i < 8; i++ {
		in := insts[r.Intn(len(insts))]
		d := in.pool[r.Intn(len(in.pool))]
		body := append(append([]byte{}, be32(in.id)...), d.tk...)
		if r.Intn(2) == 0 {
			body = append([]byte{1}, body...)
		}
		if r.Intn(2) == 0 {
			es = append(es, &entry{space: 0, key: storage.NewMetadataContext().ConstructKey(storage.TKey(body)), arg: "metadata"})
		} else {
			es = append(es, &entry{space: 2, key: storage.ConstructBlobKey(body), arg: "blob"})
		}
	}

	// ---- injectivity
	byKey := map[string]*entry{}
	for _, e := range es {
		if prev, ok := byKey[string(e.key)]; ok {
			if e.space == 1 || prev.space == 1 {
				p.Violation("pure:collision", fmt.Sprintf("distinct tuples %s and %s share the storage key %x", prev.id(), e.id(), e.key),
					map[string]interface{}{"a": prev.witness(), "b": e.witness()})
			}
			continue
		}
		byKey[string(e.key)] = e
	}
	// ---- order: sort by bytes (Badger's comparator), then the (instance, tkey, version) sequence must be non-decreasing
	sorted := make([]*entry, 0, len(byKey))
	for _, e := range byKey {
		sorted = append(sorted, e)
	}
	sort.Slice(sorted, func(i, j int) bool { return bytes.Compare(sorted[i].key, sorted[j].key) < 0 })
	orderBreaks := 0
	for i := 1; i < len(sorted); i++ {
		a, b := sorted[i-1], sorted[i]
		if cmp3(a, b) > 0 {
			orderBreaks++
			if orderBreaks <= 2 {
				s.viol(nul, "order", fmt.Sprintf("byte order of the keys disagrees with (instance, tkey, version) order: key %x of tuple %s sorts before key %x of tuple %s", a.key, a.id(), b.key, b.id()),
					map[string]interface{}{"first": a.witness(), "second": b.witness()})
			}
		}
	}
	// ---- contiguity: one run per instance and per datum
	instRuns, datumRuns := map[uint32]int{}, map[string]int{}
	instCount, datumCount, classCount := map[uint32]int{}, map[string]int{}, map[string]int{}
	dk := func(e *entry) string { return fmt.Sprintf("%d|%x", e.inst, e.tk) }
	ck := func(inst uint32, c byte) string { return fmt.Sprintf("%d|%d", inst, c) }
	for i, e := range sorted {
		if e.space != 1 {
			continue
		}
		instCount[e.inst]++
		datumCount[dk(e)]++
		if len(e.tk) > 0 {
			classCount[ck(e.inst, e.tk[0])]++
		}
		prev := (*entry)(nil)
		if i > 0 {
			prev = sorted[i-1]
		}
		if prev == nil || prev.space != 1 || prev.inst != e.inst {
			instRuns[e.inst]++
		}
		if prev == nil || prev.space != 1 || prev.inst != e.inst || !bytes.Equal(prev.tk, e.tk) {
			datumRuns[dk(e)]++
			if datumRuns[dk(e)] == 2 {
				s.viol(nul, "run-interrupted", fmt.Sprintf("the versions of datum (instance %d, tkey %x) are not contiguous in byte order: key %x of tuple %s lies between them", e.inst, e.tk, prev.key, prev.id()),
					map[string]interface{}{"datum_key": e.witness(), "interrupting": prev.witness()})
			}
		}
	}
	for id, n := range instRuns {
		if n > 1 {
			s.viol(nul, "instance-run-interrupted", fmt.Sprintf("the keys of instance %d form %d separate runs in byte order", id, n), map[string]interface{}{"instance": id, "runs": n})
		}
	}

	// ---- ranges
	keys := make([]storage.Key, len(sorted))
	for i, e := range sorted {
		keys[i] = e.key
	}
	checkRange := func(name string, min, max storage.Key, own func(*entry) bool, ownTotal int, wrapOK bool, desc string) {
		lo := sort.Search(len(keys), func(i int) bool { return bytes.Compare(keys[i], min) >= 0 })
		hi := sort.Search(len(keys), func(i int) bool { return bytes.Compare(keys[i], max) > 0 })
		p.Count("ranges_checked:"+name, 1)
		if hi < lo {
			hi = lo // inverted range: nothing is scanned
		}
		inside, reported := 0, false
		for i := lo; i < hi; i++ {
			if own(sorted[i]) {
				inside++
			} else if !reported {
				reported = true
				s.viol(nul, "range-foreign:"+name, fmt.Sprintf("%s = [%x, %x] contains the foreign key %x of tuple %s", desc, min, max, keys[i], sorted[i].id()),
					map[string]interface{}{"range": name, "of": desc, "min": hex.EncodeToString(min), "max": hex.EncodeToString(max), "foreign": sorted[i].witness()})
			}
		}
		if missing := ownTotal - inside; missing > 0 {
			if wrapOK {
				p.Count("observation:own_keys_outside_"+name+"_at_instance_0xFFFFFFFF", missing)
			} else {
				s.viol(nul, "range-missing:"+name, fmt.Sprintf("%s = [%x, %x] misses %d of its %d own keys", desc, min, max, missing, ownTotal),
					map[string]interface{}{"range": name, "of": desc, "min": hex.EncodeToString(min), "max": hex.EncodeToString(max), "own": ownTotal, "inside": inside})
			}
		}
	}
	for _, in := range insts {
		id := in.id
		if instCount[id] == 0 {
			continue
		}
		ctx := storage.NewDataContext(&fake{id: dvid.InstanceID(id)}, dvid.VersionID(pick32(r)))
		ownInst := func(e *entry) bool { return e.space == 1 && e.inst == id }
		wrap := id == 0xFFFFFFFF
		desc := fmt.Sprintf("instance %d", id)
		min, max := ctx.KeyRange()
		checkRange("KeyRange", min, max, ownInst, instCount[id], wrap, "KeyRange of "+desc)
		min, max = storage.DataInstanceKeyRange(dvid.InstanceID(id))
		checkRange("DataInstanceKeyRange", min, max, ownInst, instCount[id], wrap, "DataInstanceKeyRange of "+desc)
		// the range badger.DeleteAll uses for a versioned context
		min, _ = ctx.MinVersionKey(storage.MinTKey(storage.TKeyMinClass))
		max, _ = ctx.MaxVersionKey(storage.MaxTKey(storage.TKeyMaxClass))
		checkRange("DeleteAllVersionedRange", min, max, ownInst, instCount[id], false, "MinVersionKey(MinTKey(0))..MaxVersionKey(MaxTKey(255)) of "+desc)
		// class ranges
		classes := map[byte]bool{}
		for _, d := range in.pool {
			if len(d.tk) > 0 {
				classes[d.tk[0]] = true
			}
		}
		for c := range classes {
			c := c
			ownClass := func(e *entry) bool { return e.space == 1 && e.inst == id && len(e.tk) > 0 && e.tk[0] == c }
			min, max = ctx.TKeyClassRange(storage.TKeyClass(c))
			checkRange("TKeyClassRange", min, max, ownClass, classCount[ck(id, c)], false, fmt.Sprintf("TKeyClassRange(%d) of %s", c, desc))
			min, _ = ctx.MinVersionKey(storage.MinTKey(storage.TKeyClass(c)))
			max, _ = ctx.MaxVersionKey(storage.MaxTKey(storage.TKeyClass(c)))
			checkRange("ClassMinMaxTKeyRange", min, max, ownClass, classCount[ck(id, c)], false, fmt.Sprintf("MinVersionKey(MinTKey(%d))..MaxVersionKey(MaxTKey(%d)) of %s", c, c, desc))
		}
		// datum ranges
		for _, d := range in.pool {
			d := d
			n := datumCount[fmt.Sprintf("%d|%x", id, d.tk)]
			if n == 0 {
				continue
			}
			min, _ = ctx.MinVersionKey(d.tk)
			max, _ = ctx.MaxVersionKey(d.tk)
			ownDatum := func(e *entry) bool { return e.space == 1 && e.inst == id && bytes.Equal(e.tk, d.tk) }
			checkRange("VersionKeyRange", min, max, ownDatum, n, false, fmt.Sprintf("MinVersionKey..MaxVersionKey of datum (%s, tkey %x, %s)", desc, d.tk, d.arg))
		}
		// tkey intervals as used by range queries
		for j := 0; j < 3; j++ {
			a, b := in.pool[r.Intn(len(in.pool))].tk, in.pool[r.Intn(len(in.pool))].tk
			if bytes.Compare(a, b) > 0 {
				a, b = b, a
			}
			min, _ = ctx.MinVersionKey(a)
			max, _ = ctx.MaxVersionKey(b)
			ownIv := func(e *entry) bool {
				return e.space == 1 && e.inst == id && bytes.Compare(e.tk, a) >= 0 && bytes.Compare(e.tk, b) <= 0
			}
			total := 0
			for _, e := range sorted {
				if ownIv(e) {
					total++
				}
			}
			checkRange("TKeyIntervalRange", min, max, ownIv, total, false, fmt.Sprintf("MinVersionKey(%x)..MaxVersionKey(%x) of %s", a, b, desc))
		}
	}
	// space ranges
	{
		min, max := storage.NewMetadataContext().KeyRange()
		total := 0
		for _, e := range sorted {
			if e.space == 0 {
				total++
			}
		}
		checkRange("MetadataKeyRange", min, max, func(e *entry) bool { return e.space == 0 }, total, false, "MetadataContext.KeyRange")
		min, max = storage.DataKeyRange()
		lo := sort.Search(len(keys), func(i int) bool { return bytes.Compare(keys[i], min) >= 0 })
		hi := sort.Search(len(keys), func(i int) bool { return bytes.Compare(keys[i], max) > 0 })
		for i := lo; i < hi; i++ {
			if sorted[i].space != 1 {
				s.viol(nul, "range-foreign:DataKeyRange", fmt.Sprintf("DataKeyRange [%x, %x] contains the non-data key %x", min, max, keys[i]), sorted[i].witness())
				break
			}
		}
		out := 0
		for i, e := range sorted {
			if e.space == 1 && (i < lo || i >= hi) {
				out++
				if e.inst != 0xFFFFFFFF {
					s.viol(nul, "range-missing:DataKeyRange", fmt.Sprintf("DataKeyRange [%x, %x] misses the data key %x of instance %d", min, max, e.key, e.inst), e.witness())
					break
				}
			}
		}
		if out > 0 {
			p.Count("observation:data_keys_of_instance_0xFFFFFFFF_outside_DataKeyRange", out)
		}
	}

	// ---- bookkeeping
	popn := "main"
	if nul {
		popn = "nul"
	}
	for _, e := range sorted {
		if e.space != 1 {
			continue
		}
		p.Case(popn+"|"+e.id(), datumCount[dk(e)] >= 2)
		p.Seen("families", e.fam)
		if e.tomb {
			p.Count("tuples_tombstone", 1)
		}
		if e.client != 0 {
			p.Count("tuples_client_nonzero", 1)
		}
		if e.inst == 0 || e.inst == 0xFFFFFFFF {
			p.Count("tuples_instance_0_or_max", 1)
		}
		if e.ver == 0 || e.ver == 0xFFFFFFFF {
			p.Count("tuples_version_0_or_max", 1)
		}
	}
	p.Count("universes_"+popn, 1)
	p.Count("tuples_"+popn, len(es)-8)
	p.Count("datums_"+popn, len(datumCount))
	adj := 0
	for id := range idset {
		if idset[id+1] {
			adj++
		}
	}
	p.Count("adjacent_instance_id_pairs", adj)
	if s.sampled < 2 && !nul {
		s.sampled++
		var sm []interface{}
		for i := 0; i < len(sorted) && len(sm) < 4; i += 1 + len(sorted)/4 {
			sm = append(sm, sorted[i].witness())
		}
		p.Sample(map[string]interface{}{"layer": "pure", "universe": un, "instances": len(insts), "tuples": len(es), "some_sorted_keys": sm})
	}
}

func main() {
	p := probe.New()
	s := &probeState{p: p, r: p.Rand, nulShown: map[string]bool{}}
	size := 2000
	n := p.N(120, 1200) // about 200 k / 2 M tuples
	for u := 0; u < n; u++ {
		s.universe(u, false, size)
	}
	// separate low-rate population with embedded 0x00 in string-named keys (observations only)
	for u := 0; u < p.N(3, 30); u++ {
		s.universe(1_000_000+u, true, 600)
	}
	p.Done()
}
