// intentionally empty: allows the body-less go:linkname declaration in splitfast.go
