package main

// Access to the unexported fast split variant of the package under test without touching /repo:
// labels.PositionedBlock.splitFast is pulled in by symbol name.  (If the lead adds
// datatype/common/labels/export_verif.go with `func VerifSplitFast(pb PositionedBlock, op SplitOp) (...)
// { return pb.splitFast(op) }`, replace the body-less declaration below by a call to it and delete
// splitfast.s.)

import (
	_ "unsafe" // go:linkname

	"github.com/janelia-flyem/dvid/datatype/common/labels"
)

//go:linkname splitFast github.com/janelia-flyem/dvid/datatype/common/labels.PositionedBlock.splitFast
func splitFast(pb labels.PositionedBlock, op labels.SplitOp) (split *labels.Block, keptSize, splitSize uint64, err error)
