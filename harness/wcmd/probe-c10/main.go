// probe-c10: operations on compressed label blocks (datatype/common/labels) equal the voxel-wise reference.
//
// Every case builds a label array (generator shared with probe-c09), compresses it with the real MakeBlock,
// applies real operations on the compressed form and compares, voxel for voxel, with the naive operation on
// the plain []uint64 array; reported counts are compared with true counts; the source block must stay
// unchanged; every direct view of the result (Value, GetPointLabels, CalcNumLabels(nil|prev), WriteRLEs,
// WriteBinaryBlocks, Marshal round trip) is compared with the naive view of the expected array.
//
//	table   1-4 chained MergeLabels / ReplaceLabel / ReplaceLabels on the compressed block (no re-encoding between)
//	split   Split (slow path), splitFast (unexported fast path, reached by go:linkname), SplitSupervoxel,
//	        SplitSupervoxels, DoSplitWithStats, SplitStats by run-length sets, optionally after a table edit
//	downres Downres / DownresSlow / DownresFast / DownresLabels over all 2^8 present/absent octant patterns
//	        x {solid, mixed} octants, against the documented vote on the array
//
// Legal inputs only: block edges multiples of 8 and >= 16; runs lie inside the block, inside one row and do not
// overlap; merged sets contain neither the target nor 0; new labels handed out for splits are unused labels.
package main

import (
	"flag"
	"fmt"
	"math/rand"
	"os"
	"sort"
	"strings"

	"github.com/janelia-flyem/dvid/datatype/common/labels"
	"github.com/janelia-flyem/dvid/dvid"

	lg "verif/harness/internal/labelgen"
	"verif/harness/internal/probe"
)

var (
	only    = flag.Int("only", -1, "run only the case with this index (replay)")
	workers = flag.Int("workers", 0, "worker goroutines (default 4 quick, 8 thorough)")
	p       *probe.P
)

func oddSubBlocks(size [3]int) bool { return (size[0]/8)*(size[1]/8)*(size[2]/8)%2 == 1 }

// errKey maps the refusal to encode a result of >= 2 labels in a block with an odd number of sub-blocks (all
// edges = 8 mod 16, e.g. 24x24x24; the uint32 index table then starts at an offset = 2 mod 4) to the key that
// C09 reports for the same defect; every other error keeps the operation's own key.
func errKey(size [3]int, err error, dflt string) string {
	if err != nil && oddSubBlocks(size) && strings.Contains(err.Error(), "alignment") {
		return "encode:odd-subblock-count-misaligned-index-table"
	}
	return dflt
}

func main() {
	p = probe.New()
	// DownresFast and the dvid logger print to stdout; keep the protocol stream clean
	if dn, err := os.OpenFile(os.DevNull, os.O_WRONLY, 0); err == nil {
		os.Stdout = dn
	}
	sizes := lg.AllSizes()
	kinds := lg.Kinds()
	rot := int(p.Seed % 1000)

	// thorough is sized for ~15 CPU-minutes in the plain build so that the tier stays inside its budget on a busy machine
	nTable, nSplit, nDown := p.N(250, 10000), p.N(250, 10000), p.N(512, 7680)
	if p.Flavour != "" {
		nTable, nSplit, nDown = p.N(70, 1800), p.N(70, 1800), p.N(128, 1536)
	}
	var cases []func(c *lg.Case)
	for i := 0; i < nTable; i++ {
		size := sizes[(i*7+rot)%len(sizes)]
		kind := kinds[(i+i/len(kinds)+rot)%len(kinds)]
		cases = append(cases, func(c *lg.Case) { tableCase(c, size, kind) })
	}
	for i := 0; i < nSplit; i++ {
		i := i
		size := sizes[(i*5+3+rot)%len(sizes)]
		kind := kinds[(i*3+i/len(kinds)+rot)%len(kinds)]
		cases = append(cases, func(c *lg.Case) { splitCase(c, size, kind, i) })
	}
	for i := 0; i < p.N(120, 3000); i++ {
		i := i
		cases = append(cases, func(c *lg.Case) { worldSplitCase(c, i) })
	}
	// downres: case i covers octant pattern i%256 with solid (i/256 even) or mixed (odd) octants; with >= 512
	// cases every (pattern, mode) pair is executed at least once.  Sanitizer builds in the quick tier take a
	// seed-dependent quarter of the pairs.
	for i := 0; i < nDown; i++ {
		j := i
		if nDown < 512 {
			j = (i*4 + rot) % 512
		}
		pattern, mixed := j%256, (j/256)%2 == 1
		size := sizes[(j*13+j/512+rot)%len(sizes)]
		if j >= 512 || p.Flavour != "" {
			// keep the bulk cheap: the vote is local, small blocks exercise it as well
			if size[0]*size[1]*size[2] > 32*32*32 && j%8 != 0 {
				size = [3]int{size[0] % 48, size[1] % 48, size[2] % 48} // 64 -> 16
			}
		}
		cases = append(cases, func(c *lg.Case) { downresCase(c, size, pattern, mixed, j) })
	}
	nw := *workers
	if nw <= 0 {
		nw = p.N(4, 8)
	}
	rn := &lg.Runner{P: p, Workers: nw, Only: *only}
	rn.Run(cases)
	p.Done()
}

// ------------------------------------------------------------------------------------------------
// helpers

func countOf(a []uint64, l uint64) uint64 {
	var n uint64
	for _, v := range a {
		if v == l {
			n++
		}
	}
	return n
}

func same(a, b []uint64) bool {
	for i := range a {
		if a[i] != b[i] {
			return false
		}
	}
	return true
}

func fmtLabels(ls []uint64) string {
	if len(ls) > 6 {
		return fmt.Sprintf("%v...(%d)", ls[:6], len(ls))
	}
	return fmt.Sprint(ls)
}

// pickPresent returns up to n distinct labels of the list (optionally excluding 0 and ex).
func pickPresent(r *rand.Rand, present []uint64, n int, ex map[uint64]struct{}) []uint64 {
	var out []uint64
	for _, i := range r.Perm(len(present)) {
		l := present[i]
		if l == 0 {
			continue
		}
		if _, no := ex[l]; no {
			continue
		}
		out = append(out, l)
		if len(out) >= n {
			break
		}
	}
	return out
}

type checker struct {
	c    *lg.Case
	size [3]int
	desc string
	base map[string]interface{}
}

func (k *checker) viol(key, format string, args ...interface{}) {
	w := map[string]interface{}{}
	for a, b := range k.base {
		w[a] = b
	}
	w["desc"] = k.desc
	k.c.Violation(key, fmt.Sprintf(format, args...)+" | "+k.desc, w)
}

// result compares the real result block of an operation with the expected array, checks that the source block
// is untouched and runs the view checks on the result.  It returns false when the decoded result differs.
func (k *checker) result(op string, res *labels.Block, exp []uint64, src *labels.Block, srcArr []uint64, focus []uint64) bool {
	ok := true
	if pn := lg.Try(func() {
		got, gsz := lg.Decode(res)
		if gsz != k.size {
			k.viol(op+":decode", "%s: result has size %v, expected %v", op, gsz, k.size)
			ok = false
		} else if d := lg.Diff(got, exp, k.size); d != "" {
			k.viol(op+":decode", "%s: result differs from the voxel-wise operation: %s", op, d)
			ok = false
		}
	}); pn != "" {
		k.viol(op+":decode", "%s: decoding the result panicked: %s", op, pn)
		return false
	}
	if src != nil {
		got, _ := lg.Decode(src)
		if d := lg.Diff(got, srcArr, k.size); d != "" {
			k.viol(op+":source-modified", "%s modified the block it was applied to (it must return a new block): %s", op, d)
		}
	}
	if !ok {
		return false
	}
	r := k.c.R
	o := lg.ViewOpts{R: r, Light: true, AllVox: len(exp) <= 16*16*16 && p.Flavour == "", Coord: [3]int32{int32(r.Intn(4)), int32(r.Intn(4)), int32(r.Intn(40))}, Focus: focus}
	for _, f := range lg.CheckViews(res, exp, k.size, o) {
		key := f.View + ":after-" + op
		if f.Tag != "" {
			key = f.View + ":" + f.Tag
		}
		k.viol(key, "view on the result of %s: %s", op, f.What)
	}
	p.Count("result_view_sets_checked", 1)
	if src != nil {
		if pn := lg.Try(func() {
			if d := lg.CmpCountDelta(res.CalcNumLabels(src), exp, srcArr); d != "" {
				k.viol("calcnumlabels-delta:after-"+op, "result.CalcNumLabels(source) after %s: %s", op, d)
			}
		}); pn != "" {
			k.viol("calcnumlabels-delta:after-"+op, "result.CalcNumLabels(source) after %s panicked: %s", op, pn)
		}
	}
	return true
}

// ------------------------------------------------------------------------------------------------
// table edits

type tableOp struct {
	name  string // merge | replace | replaces
	desc  string
	exp   []uint64
	apply func(b *labels.Block) (*labels.Block, error)
	check func(k *checker, fresh bool)
	focus []uint64
}

// smallTable: the block's label table has few slots.  ReplaceLabel counts voxels once per table slot holding the
// target, which is quadratic for target 0 after a merge zeroed thousands of slots; target 0 is only used on small tables.
func genTableOp(r *rand.Rand, cur []uint64, pick int, smallTable bool) *tableOp {
	present := lg.LabelsOf(cur)
	used := lg.SetOf(cur)
	fresh := func() uint64 { return lg.FreshLabel(r, used) }
	exp := make([]uint64, len(cur))
	switch pick % 3 {
	case 0: // ---- merge
		var target uint64
		var merged []uint64
		variant := r.Intn(7)
		switch variant {
		case 0, 1: // target present, some present labels merged
			t := pickPresent(r, present, 1, nil)
			if len(t) == 0 {
				target = fresh()
			} else {
				target = t[0]
			}
			merged = pickPresent(r, present, 1+r.Intn(4), map[uint64]struct{}{target: {}})
		case 2: // target absent
			target = fresh()
			merged = pickPresent(r, present, 1+r.Intn(4), nil)
		case 3: // merged labels all absent
			t := pickPresent(r, present, 1, nil)
			target = fresh()
			if len(t) > 0 && r.Intn(2) == 0 {
				target = t[0]
			}
			merged = []uint64{fresh(), fresh()}
		case 4: // present and absent merged labels
			target = fresh()
			if t := pickPresent(r, present, 1, nil); len(t) > 0 && r.Intn(2) == 0 {
				target = t[0]
			}
			merged = append(pickPresent(r, present, 1+r.Intn(3), map[uint64]struct{}{target: {}}), fresh())
		case 5: // everything (non-zero) merged
			target = fresh()
			if t := pickPresent(r, present, 1, nil); len(t) > 0 && r.Intn(2) == 0 {
				target = t[0]
			}
			merged = pickPresent(r, present, len(present), map[uint64]struct{}{target: {}})
		case 6: // merge into 0
			target = 0
			merged = pickPresent(r, present, 1+r.Intn(3), nil)
		}
		ms := labels.Set{}
		for _, l := range merged {
			ms[l] = struct{}{}
		}
		for i, v := range cur {
			if _, ok := ms[v]; ok {
				exp[i] = target
			} else {
				exp[i] = v
			}
		}
		return &tableOp{name: "merge", desc: fmt.Sprintf("merge(v%d)%s->%d", variant, fmtLabels(merged), target), exp: exp, focus: []uint64{target},
			apply: func(b *labels.Block) (*labels.Block, error) {
				return b.MergeLabels(labels.MergeOp{MutID: 1, Target: target, Merged: ms})
			}}
	case 1: // ---- replace one label
		var target, nl uint64
		switch r.Intn(4) {
		case 0:
			target = fresh() // absent
		case 1:
			target = 0
			if !smallTable {
				target = fresh()
			}
		default:
			if t := pickPresent(r, present, 1, nil); len(t) > 0 {
				target = t[0]
			} else if !smallTable {
				target = fresh()
			}
		}
		switch r.Intn(5) {
		case 0:
			nl = 0
		case 1:
			nl = target // identity
		case 2, 3:
			if t := pickPresent(r, present, 1, map[uint64]struct{}{target: {}}); len(t) > 0 {
				nl = t[0] // already in the block: two table slots with one label afterwards
			} else {
				nl = fresh()
			}
		default:
			nl = fresh()
		}
		for i, v := range cur {
			if v == target {
				exp[i] = nl
			} else {
				exp[i] = v
			}
		}
		want := countOf(cur, target)
		var got uint64
		return &tableOp{name: "replace", desc: fmt.Sprintf("replace %d->%d", target, nl), exp: exp, focus: []uint64{nl, target},
			apply: func(b *labels.Block) (nb *labels.Block, err error) {
				nb, got, err = b.ReplaceLabel(target, nl)
				return
			},
			check: func(k *checker, _ bool) {
				if got != want {
					k.viol("replace:count", "ReplaceLabel(%d,%d) reported replaceSize %d, true number of voxels with the target label is %d", target, nl, got, want)
				}
			}}
	default: // ---- replace by mapping
		m := map[uint64]uint64{}
		some := pickPresent(r, present, 2+r.Intn(4), nil)
		variant := r.Intn(6)
		switch {
		case variant == 0 && len(some) >= 2: // chain a->b, b->c
			m[some[0]] = some[1]
			if len(some) >= 3 {
				m[some[1]] = some[2]
			} else {
				m[some[1]] = fresh()
			}
		case variant == 1 && len(some) >= 2: // swap
			m[some[0]], m[some[1]] = some[1], some[0]
		case variant == 2: // to and from 0
			m[0] = fresh()
			if len(some) > 0 {
				m[some[0]] = 0
			}
		case variant == 3: // identity and absent keys
			if len(some) > 0 {
				m[some[0]] = some[0]
			}
			m[fresh()] = fresh()
		case variant == 4: // many to one present label
			for _, l := range some {
				m[l] = some[0]
			}
		default:
			for _, l := range some {
				m[l] = fresh()
			}
			if r.Intn(2) == 0 {
				m[fresh()] = 0
			}
		}
		hit := false
		for i, v := range cur {
			if nv, ok := m[v]; ok {
				exp[i] = nv
				hit = true
			} else {
				exp[i] = v
			}
		}
		var keys []uint64
		for kk := range m {
			keys = append(keys, kk)
		}
		sort.Slice(keys, func(i, j int) bool { return keys[i] < keys[j] })
		var parts, focus []string
		var fl []uint64
		for _, kk := range keys {
			parts = append(parts, fmt.Sprintf("%d->%d", kk, m[kk]))
			fl = append(fl, m[kk])
		}
		_ = focus
		var replaced bool
		return &tableOp{name: "replaces", desc: "replaces(v" + fmt.Sprint(variant) + "){" + strings.Join(parts, ",") + "}", exp: exp, focus: fl,
			apply: func(b *labels.Block) (nb *labels.Block, err error) {
				nb, replaced, err = b.ReplaceLabels(m)
				return
			},
			check: func(k *checker, fresh bool) {
				// on a freshly encoded block the label table is exactly the set of voxel labels
				if hit && !replaced {
					k.viol("replaces:flag", "ReplaceLabels reported replaced=false although voxels carry a mapped label")
				} else if fresh && !hit && replaced {
					k.viol("replaces:flag", "ReplaceLabels reported replaced=true although no voxel of the freshly encoded block carries a mapped label")
				}
			}}
	}
}

func tableCase(c *lg.Case, size [3]int, kind string) {
	r := c.R
	g := lg.Gen(r, size, kind)
	base := fmt.Sprintf("case=%d table size=%s kind=%s labels=%d maxSB=%d hash=%s", c.CI, lg.SizeStr(size), kind, g.NLabels, g.MaxSB, g.Hash())
	c.Begin(base)
	b, err := lg.MakeBlock(g.A, size)
	if err != nil {
		p.Count("blocks_refused_by_encoder", 1) // reported by C09 (odd number of sub-blocks)
		if !oddSubBlocks(size) {
			c.Violation("encode:error", "MakeBlock refused a legal array: "+err.Error()+" | "+base, nil)
		}
		return
	}
	k := &checker{c: c, size: size, base: map[string]interface{}{"type": "table", "size": size, "kind": kind, "array_hash": g.Hash()}}
	cur, curB, fresh := g.A, b, true
	nops := 1 + r.Intn(4)
	var ops []string
	for step := 0; step < nops; step++ {
		op := genTableOp(r, cur, r.Intn(3), g.NLabels <= 64)
		ops = append(ops, op.desc)
		k.desc = base + " ops: " + strings.Join(ops, " ; ")
		c.Begin(k.desc)
		changed := !same(cur, op.exp)
		p.Case("table|"+lg.SizeStr(size)+"|"+kind+"|"+g.Hash()+"|"+strings.Join(ops, ";"), changed)
		p.Count("op_"+op.name, 1)
		p.Seen("ops", op.name)
		var nb *labels.Block
		var err error
		if pn := lg.Try(func() { nb, err = op.apply(curB) }); pn != "" {
			k.viol(op.name+":panic", "%s panicked: %s", op.name, pn)
			return
		}
		if err != nil || nb == nil {
			k.viol(errKey(size, err, op.name+":error"), "%s failed on a legal input: %v", op.name, err)
			return
		}
		if op.check != nil {
			op.check(k, fresh)
		}
		if !k.result(op.name, nb, op.exp, curB, cur, op.focus) {
			return
		}
		cur, curB, fresh = op.exp, nb, false
	}
	if c.CI < 1 && p.Flavour == "" {
		p.Sample(map[string]interface{}{"type": "table", "size": lg.SizeStr(size), "kind": kind, "ops": ops})
	}
	p.Count("table_sequences", 1)
	p.Seen("sequence_lengths", fmt.Sprint(nops))
}

// ------------------------------------------------------------------------------------------------
// splits by run-length sets

type run struct{ x, y, z, n int }

var maskModes = []string{"empty", "whole", "single", "exact", "partial", "segments", "dilated", "outside", "exact+segments"}

// genMask marks the voxels of the split volume inside one block.
func genMask(r *rand.Rand, size [3]int, a []uint64, target uint64, mode string) []bool {
	nx := size[0]
	m := make([]bool, len(a))
	segments := func(rowProb int) {
		for row := 0; row < len(a)/nx; row++ {
			if r.Intn(100) >= rowProb {
				continue
			}
			for x := r.Intn(nx); x < nx; {
				n := 1 + r.Intn(14) // up to 14 voxels: crosses sub-block borders
				for k := 0; k < n && x+k < nx; k++ {
					m[row*nx+x+k] = true
				}
				x += n + 1 + r.Intn(9)
			}
		}
	}
	switch mode {
	case "empty":
	case "whole":
		for i := range m {
			m[i] = true
		}
	case "single":
		var idx []int
		for i, v := range a {
			if v == target {
				idx = append(idx, i)
			}
		}
		if len(idx) > 0 && r.Intn(4) > 0 {
			m[idx[r.Intn(len(idx))]] = true
		} else {
			m[r.Intn(len(a))] = true
		}
	case "exact":
		for i, v := range a {
			m[i] = v == target
		}
	case "partial":
		cut := r.Intn(len(a))
		for i, v := range a {
			m[i] = v == target && (i < cut) == (cut%2 == 0) && r.Intn(16) > 0
		}
	case "segments":
		segments(25)
	case "dilated":
		for i, v := range a {
			if v == target {
				x := i % nx
				for d := -2; d <= 2; d++ {
					if x+d >= 0 && x+d < nx {
						m[i+d] = true
					}
				}
			}
		}
	case "outside":
		for row := 0; row < len(a)/nx; row++ {
			has := false
			for x := 0; x < nx; x++ {
				if a[row*nx+x] == target {
					has = true
				}
			}
			if !has && r.Intn(3) == 0 {
				x0 := r.Intn(nx)
				for x := x0; x < nx && x < x0+1+r.Intn(nx); x++ {
					m[row*nx+x] = true
				}
			}
		}
	case "exact+segments":
		for i, v := range a {
			m[i] = v == target
		}
		segments(10)
	}
	return m
}

// maskRuns turns the mask into disjoint runs: maximal runs, some cut into adjacent pieces, optionally shuffled.
func maskRuns(r *rand.Rand, size [3]int, m []bool) []run {
	nx, ny := size[0], size[1]
	var out []run
	for row := 0; row < len(m)/nx; row++ {
		y, z := row%ny, row/ny
		for x := 0; x < nx; {
			if !m[row*nx+x] {
				x++
				continue
			}
			n := 0
			for x+n < nx && m[row*nx+x+n] {
				n++
			}
			for n > 0 { // cut some runs into adjacent pieces
				k := n
				if n > 1 && r.Intn(4) == 0 {
					k = 1 + r.Intn(n-1)
				}
				out = append(out, run{x, y, z, k})
				x += k
				n -= k
			}
		}
	}
	if r.Intn(2) == 0 {
		r.Shuffle(len(out), func(i, j int) { out[i], out[j] = out[j], out[i] })
	}
	return out
}

func toRLEs(runs []run, off dvid.Point3d) dvid.RLEs {
	out := make(dvid.RLEs, len(runs))
	for i, q := range runs {
		out[i] = dvid.NewRLE(dvid.Point3d{off[0] + int32(q.x), off[1] + int32(q.y), off[2] + int32(q.z)}, int32(q.n))
	}
	return out
}

func splitCase(c *lg.Case, size [3]int, kind string, i int) {
	r := c.R
	g := lg.Gen(r, size, kind)
	desc := fmt.Sprintf("case=%d split size=%s kind=%s labels=%d maxSB=%d hash=%s", c.CI, lg.SizeStr(size), kind, g.NLabels, g.MaxSB, g.Hash())
	c.Begin(desc)
	b, err := lg.MakeBlock(g.A, size)
	if err != nil {
		p.Count("blocks_refused_by_encoder", 1)
		if !oddSubBlocks(size) {
			c.Violation("encode:error", "MakeBlock refused a legal array: "+err.Error()+" | "+desc, nil)
		}
		return
	}
	k := &checker{c: c, size: size, base: map[string]interface{}{"type": "split", "size": size, "kind": kind, "array_hash": g.Hash()}}
	cur, curB := g.A, b
	// one third of the cases first edit the label table so that the split meets duplicate / zeroed slots
	if r.Intn(3) == 0 {
		op := genTableOp(r, cur, r.Intn(3), g.NLabels <= 64)
		nb, err := op.apply(curB)
		if err != nil || nb == nil {
			return // reported by the table cases
		}
		if got, _ := lg.Decode(nb); !same(got, op.exp) {
			return // reported by the table cases
		}
		cur, curB = op.exp, nb
		desc += " after " + op.desc
	}
	coord := dvid.ChunkPoint3d{int32(r.Intn(7) - 2), int32(r.Intn(7) - 2), int32(r.Intn(7) - 2)}
	off := dvid.Point3d{coord[0] * int32(size[0]), coord[1] * int32(size[1]), coord[2] * int32(size[2])}
	pb := labels.PositionedBlock{Block: *curB, BCoord: coord.ToIZYXString()}
	present := lg.LabelsOf(cur)
	used := lg.SetOf(cur)
	fresh := func() uint64 { return lg.FreshLabel(r, used) }

	var target uint64
	if t := pickPresent(r, present, 1, nil); len(t) > 0 && r.Intn(8) > 0 {
		target = t[0]
	} else {
		target = fresh() // absent target
	}
	mode := maskModes[(i/6)%len(maskModes)]
	mask := genMask(r, size, cur, target, mode)
	runs := maskRuns(r, size, mask)
	rles := toRLEs(runs, off)
	nmask := 0
	for _, v := range mask {
		if v {
			nmask++
		}
	}
	variant := []string{"split", "splitfast", "supervoxel", "supervoxels", "withstats", "stats"}[i%6]
	k.desc = fmt.Sprintf("%s block=%v %s target=%d runs=%d(%s, %d voxels)", desc, coord, variant, target, len(runs), mode, nmask)
	k.base["runs"] = len(runs)
	k.base["mask_mode"] = mode
	k.base["variant"] = variant
	c.Begin(k.desc)
	p.Seen("ops", variant)
	p.Seen("mask_modes", mode)
	p.Seen("split_variant_x_mask", variant+"/"+mode)
	p.Count("op_"+variant, 1)
	p.Count("rle_runs_fed", len(runs))
	exp := append([]uint64{}, cur...)
	caseKey := fmt.Sprintf("split|%s|%s|%s|%s|%s|%d|%d|%s", lg.SizeStr(size), kind, g.Hash(), variant, mode, target, len(runs), lg.HashArr(size, boolArr(mask)))

	switch variant {
	case "split", "splitfast":
		nl := fresh()
		if r.Intn(3) == 0 {
			if t := pickPresent(r, present, 1, map[uint64]struct{}{target: {}}); len(t) > 0 {
				nl = t[0] // split into a label that is already in the block
			}
		}
		var wantKept, wantSplit uint64
		for j, v := range cur {
			if v == target {
				if mask[j] {
					exp[j] = nl
					wantSplit++
				} else {
					wantKept++
				}
			}
		}
		p.Case(caseKey, wantSplit > 0)
		op := labels.SplitOp{MutID: 1, Target: target, NewLabel: nl, RLEs: rles}
		var res *labels.Block
		var kept, split uint64
		var err error
		name, key := "Split", "split"
		if variant == "splitfast" {
			name, key = "splitFast (unexported fast path)", "splitfast"
		}
		bad := func(class, format string, args ...interface{}) {
			if variant == "splitfast" {
				k.viol("splitfast:differs-from-reference", name+": "+format, args...)
			} else {
				k.viol(key+":"+class, name+": "+format, args...)
			}
		}
		if pn := lg.Try(func() {
			if variant == "splitfast" {
				res, kept, split, err = splitFast(pb, op)
			} else {
				res, kept, split, err = pb.Split(op)
			}
		}); pn != "" {
			bad("panic", "panicked (new label %d): %s", nl, pn)
			return
		}
		if err != nil {
			if ek := errKey(size, err, ""); ek != "" {
				k.viol(ek, name+" cannot encode its result (new label %d): %v", nl, err)
			} else {
				bad("error", "failed on a legal input (new label %d): %v", nl, err)
			}
			return
		}
		if wantKept+wantSplit == 0 {
			// documented: nil block when the target label is not in the block
			if res != nil || kept != 0 || split != 0 {
				bad("nil-contract", "target label absent, expected a nil block and zero sizes, got block=%v kept=%d split=%d", res != nil, kept, split)
			}
			return
		}
		if res == nil {
			bad("nil-contract", "target label present (%d voxels) but a nil block was returned", wantKept+wantSplit)
			return
		}
		if kept != wantKept || split != wantSplit {
			bad("sizes", "reported keptSize=%d splitSize=%d, true counts kept=%d split=%d (new label %d)", kept, split, wantKept, wantSplit, nl)
		}
		if variant == "splitfast" {
			if pn := lg.Try(func() {
				got, gsz := lg.Decode(res)
				if gsz != size {
					bad("decode", "result size %v", gsz)
				} else if d := lg.Diff(got, exp, size); d != "" {
					bad("decode", "result differs from the voxel-wise split (new label %d): %s", nl, d)
				}
			}); pn != "" {
				bad("decode", "decoding the result panicked: %s", pn)
			}
			return
		}
		k.result("split", res, exp, curB, cur, []uint64{nl, target})

	case "supervoxel":
		sv, svSplit, svRemain := target, fresh(), fresh()
		found := r.Intn(5) > 0
		var wantKept, wantSplit uint64
		for j, v := range cur {
			if v == sv {
				if found && mask[j] {
					exp[j] = svSplit
					wantSplit++
				} else {
					exp[j] = svRemain
					wantKept++
				}
			}
		}
		p.Case(caseKey+fmt.Sprint(found), wantKept+wantSplit > 0)
		brles := dvid.BlockRLEs{}
		if found {
			brles[pb.BCoord] = rles
		} else {
			brles[dvid.ChunkPoint3d{coord[0] + 1, coord[1], coord[2]}.ToIZYXString()] = rles
		}
		op := labels.SplitSupervoxelOp{MutID: 1, Supervoxel: sv, SplitSupervoxel: svSplit, RemainSupervoxel: svRemain, Split: brles}
		var res *labels.Block
		var kept, split uint64
		var err error
		if pn := lg.Try(func() { res, kept, split, err = pb.SplitSupervoxel(op) }); pn != "" {
			k.viol("supervoxel:panic", "SplitSupervoxel panicked: %s", pn)
			return
		}
		if err != nil || res == nil {
			k.viol(errKey(size, err, "supervoxel:error"), "SplitSupervoxel failed on a legal input: %v", err)
			return
		}
		if kept != wantKept || split != wantSplit {
			k.viol("supervoxel:sizes", "SplitSupervoxel reported keptSize=%d splitSize=%d, true counts remain=%d split=%d", kept, split, wantKept, wantSplit)
		}
		k.result("supervoxel", res, exp, curB, cur, []uint64{svSplit, svRemain})

	case "supervoxels":
		svs := map[uint64]labels.SVSplit{}
		for _, l := range append(pickPresent(r, present, 1+r.Intn(4), map[uint64]struct{}{target: {}}), target, fresh()) {
			svs[l] = labels.SVSplit{Split: fresh(), Remain: fresh()}
		}
		hit := false
		for j, v := range cur {
			if s, ok := svs[v]; ok {
				hit = true
				if mask[j] {
					exp[j] = s.Split
				} else {
					exp[j] = s.Remain
				}
			}
		}
		p.Case(caseKey+fmt.Sprint(len(svs)), hit)
		var res *labels.Block
		var err error
		if pn := lg.Try(func() { res, err = pb.SplitSupervoxels(rles, svs) }); pn != "" {
			k.viol("supervoxels:panic", "SplitSupervoxels panicked: %s", pn)
			return
		}
		if err != nil || res == nil {
			k.viol(errKey(size, err, "supervoxels:error"), "SplitSupervoxels failed on a legal input: %v", err)
			return
		}
		var fl []uint64
		for _, s := range svs {
			fl = append(fl, s.Split)
		}
		sort.Slice(fl, func(i, j int) bool { return fl[i] < fl[j] })
		k.result("supervoxels", res, exp, curB, cur, fl)

	case "withstats", "stats":
		// true per-label counts under the split volume
		under := map[uint64]uint32{}
		for j, v := range cur {
			if mask[j] && v != 0 {
				under[v]++
			}
		}
		p.Case(caseKey, len(under) > 0)
		handed := map[uint64]bool{}
		newLabel := func() (uint64, error) {
			l := fresh()
			handed[l] = true
			return l, nil
		}
		m := &labels.SVSplitMap{}
		pre := map[uint64]labels.SVSplit{}
		if variant == "stats" && r.Intn(2) == 0 {
			// mappings decided by earlier blocks of the same split
			m.Splits = map[uint64]labels.SVSplit{}
			for l := range under {
				if r.Intn(2) == 0 {
					s := labels.SVSplit{Split: fresh(), Remain: fresh()}
					m.Splits[l], pre[l] = s, s
				}
			}
		}
		var res *labels.Block
		var counts map[uint64]labels.SVSplitCount
		var err error
		fn := "DoSplitWithStats"
		if pn := lg.Try(func() {
			if variant == "withstats" {
				res, counts, err = pb.DoSplitWithStats(labels.SplitOp{MutID: 1, Target: target, RLEs: rles}, m, newLabel)
			} else {
				fn = "SplitStats"
				counts, err = pb.SplitStats(rles, m, newLabel)
			}
		}); pn != "" {
			k.viol(variant+":panic", "%s panicked: %s", fn, pn)
			return
		}
		if err != nil {
			k.viol(errKey(size, err, variant+":error"), "%s failed on a legal input: %v", fn, err)
			return
		}
		// reported counts against true counts
		for l, n := range under {
			if counts[l].Voxels != n {
				k.viol(variant+":counts", "%s reported %d split voxels for label %d, true count %d", fn, counts[l].Voxels, l, n)
				break
			}
		}
		for l, sc := range counts {
			if under[l] == 0 {
				k.viol(variant+":counts", "%s reported %d split voxels for label %d which has none under the split volume", fn, sc.Voxels, l)
				break
			}
			ms, ok := m.Splits[l]
			if !ok || ms != sc.SVSplit {
				k.viol(variant+":mapping", "%s: count entry of label %d carries %v but the split map holds %v (present=%v)", fn, l, sc.SVSplit, ms, ok)
				break
			}
			if ps, was := pre[l]; was && ps != sc.SVSplit {
				k.viol(variant+":mapping", "%s replaced the existing mapping %v of label %d by %v", fn, ps, l, sc.SVSplit)
				break
			}
			if _, was := pre[l]; !was && (!handed[sc.Split] || !handed[sc.Remain] || sc.Split == sc.Remain) {
				k.viol(variant+":mapping", "%s: labels %v for label %d were not both obtained from the new-label function", fn, sc.SVSplit, l)
				break
			}
		}
		if variant == "stats" {
			got, _ := lg.Decode(curB)
			if d := lg.Diff(got, cur, size); d != "" {
				k.viol("stats:source-modified", "SplitStats modified the block: %s", d)
			}
			return
		}
		if res == nil {
			k.viol("withstats:error", "DoSplitWithStats returned a nil block without error")
			return
		}
		var fl []uint64
		for j, v := range cur {
			if s, ok := m.Splits[v]; ok && v != 0 {
				if mask[j] {
					exp[j] = s.Split
				} else {
					exp[j] = s.Remain
				}
			}
		}
		for _, s := range m.Splits {
			fl = append(fl, s.Split)
		}
		sort.Slice(fl, func(i, j int) bool { return fl[i] < fl[j] })
		k.result("withstats", res, exp, curB, cur, fl)
	}
	if i == 7 && p.Flavour == "" {
		p.Sample(map[string]interface{}{"type": "split", "desc": k.desc})
	}
}

func boolArr(m []bool) []uint64 {
	out := make([]uint64, (len(m)+63)/64)
	for i, v := range m {
		if v {
			out[i/64] |= 1 << uint(i%64)
		}
	}
	return out
}

// ------------------------------------------------------------------------------------------------
// down-sampling

func cloneBlock(b *labels.Block) *labels.Block {
	ser, _ := b.MarshalBinary()
	nb := new(labels.Block)
	if err := nb.UnmarshalBinary(append([]byte{}, ser...)); err != nil {
		panic("clone: " + err.Error())
	}
	return nb
}

func downresCase(c *lg.Case, size [3]int, pattern int, mixed bool, j int) {
	r := c.R
	mode := "solid"
	if mixed {
		mode = "mixed"
	}
	desc := fmt.Sprintf("case=%d downres size=%s octants=%08b(bit i = octant i present; i = z*4+y*2+x) mode=%s", c.CI, lg.SizeStr(size), pattern, mode)
	c.Begin(desc)
	if oddSubBlocks(size) {
		// mixed blocks of this size cannot be encoded at all (reported by C09); solid ones can
		mixed = false
	}
	nvox := size[0] * size[1] * size[2]
	var octs [8]*labels.Block
	var octArr [8][]uint64
	shared := []uint64{lg.PickNonZero(r), lg.PickNonZero(r), 0}
	solidMode := r.Intn(4) // 0: all the same non-zero label, 1: all zero, 2: a label per octant, 3: zero and one label
	mixKinds := []string{"runs", "shared", "k=2", "k=3", "halves", "mixzero", "mix", "twosplit", "k=9", "solid", "zero", "ladder"}
	var kindsUsed []string
	for i := 0; i < 8; i++ {
		if pattern&(1<<uint(i)) == 0 {
			continue
		}
		var a []uint64
		if !mixed {
			var l uint64
			switch solidMode {
			case 0:
				l = shared[0]
			case 1:
				l = 0
			case 2:
				l = lg.PickLabel(r)
			default:
				l = shared[2*r.Intn(2)]
			}
			a = make([]uint64, nvox)
			for q := range a {
				a[q] = l
			}
			kindsUsed = append(kindsUsed, fmt.Sprintf("solid(%d)", l))
		} else {
			kind := mixKinds[r.Intn(len(mixKinds))]
			a = lg.Gen(r, size, kind).A
			if r.Intn(2) == 0 {
				// checkerboards of two labels: ties in every 2x2x2 vote
				l1, l2 := shared[0], shared[1]
				if r.Intn(3) == 0 {
					l2 = 0
				}
				for q := range a {
					if (q/size[0])%4 < 2 {
						if (q+q/size[0]+q/(size[0]*size[1]))%2 == 0 {
							a[q] = l1
						} else {
							a[q] = l2
						}
					}
				}
				kind += "+checker"
			}
			kindsUsed = append(kindsUsed, kind)
		}
		b, err := lg.MakeBlock(a, size)
		if err != nil {
			p.Count("blocks_refused_by_encoder", 1)
			return
		}
		octs[i], octArr[i] = b, a
	}
	// receiving (low-resolution) block: what the server passes is the stored block (any content) when fewer
	// than 8 octants changed, a solid-0 block otherwise
	var recvArr []uint64
	recvKind := "solid(0)"
	if pattern == 255 && r.Intn(3) > 0 {
		recvArr = make([]uint64, nvox)
	} else {
		switch r.Intn(4) {
		case 0:
			recvArr = make([]uint64, nvox)
		case 1:
			l := lg.PickNonZero(r)
			recvArr = make([]uint64, nvox)
			for q := range recvArr {
				recvArr[q] = l
			}
			recvKind = fmt.Sprintf("solid(%d)", l)
		default:
			recvKind = []string{"runs", "shared", "k=3", "halves", "mix"}[r.Intn(5)]
			if oddSubBlocks(size) {
				recvKind = "solid"
			}
			recvArr = lg.Gen(r, size, recvKind).A
		}
	}
	recv, err := lg.MakeBlock(recvArr, size)
	if err != nil {
		p.Count("blocks_refused_by_encoder", 1)
		return
	}
	// expectation: present octants are down-sampled into their eighth, absent ones leave the receiver untouched
	exp := append([]uint64{}, recvArr...)
	hx, hy, hz := size[0]/2, size[1]/2, size[2]/2
	for i := 0; i < 8; i++ {
		if octArr[i] == nil {
			continue
		}
		lo := lg.NaiveDownres(octArr[i], size)
		ox, oy, oz := (i&1)*hx, ((i>>1)&1)*hy, (i>>2)*hz
		for z := 0; z < hz; z++ {
			for y := 0; y < hy; y++ {
				copy(exp[(oz+z)*size[1]*size[0]+(oy+y)*size[0]+ox:][:hx], lo[z*hy*hx+y*hx:][:hx])
			}
		}
	}
	k := &checker{c: c, size: size, base: map[string]interface{}{"type": "downres", "size": size, "pattern": pattern, "mode": mode, "octants": kindsUsed, "receiver": recvKind}}
	k.desc = fmt.Sprintf("%s octant-kinds=%v receiver=%s", desc, kindsUsed, recvKind)
	c.Begin(k.desc)
	changed := !same(exp, recvArr)
	p.Case(fmt.Sprintf("downres|%s|%08b|%s|%s|%s", lg.SizeStr(size), pattern, mode, lg.HashArr(size, exp), lg.HashArr(size, recvArr)), changed)
	p.Seen("octant_pattern_x_mode", fmt.Sprintf("%08b/%s", pattern, mode))
	p.Seen("ops", "downres")
	p.Count("op_downres", 1)
	if (j == 255 || j == 256+0x5a) && p.Flavour == "" {
		p.Sample(map[string]interface{}{"type": "downres", "desc": k.desc})
	}

	octsCopy := func() [8]*labels.Block { return octs }
	// a) Downres (the entry point the server uses)
	{
		b := cloneBlock(recv)
		var err error
		if pn := lg.Try(func() { err = b.Downres(octsCopy()) }); pn != "" {
			k.viol("downres:panic", "Downres panicked: %s", pn)
		} else if err != nil && oddSubBlocks(size) && strings.Contains(err.Error(), "alignment") {
			k.viol("encode:odd-subblock-count-misaligned-index-table", "Downres cannot encode its result: %v", err)
		} else if err != nil {
			k.viol("downres:error", "Downres failed on a legal input: %v", err)
		} else if got, gsz := lg.Decode(b); gsz != size {
			k.viol("downres:decode", "Downres result has size %v", gsz)
		} else if d := lg.Diff(got, exp, size); d != "" {
			// classify the one structural special case: the all-solid shortcut ignores that absent octants must be kept
			key := "downres:decode"
			if onlyInAbsentOctants(got, exp, size, pattern) {
				key = "downres:absent-octants-overwritten"
				if pattern == 0 {
					key = "downres:no-octant-present-blanks-receiver"
				}
			}
			k.viol(key, "Downres differs from the voxel-wise down-sampling (absent octants keep the receiver's voxels): %s", d)
		} else {
			o := lg.ViewOpts{R: r, Light: true, Coord: [3]int32{1, 2, 3}}
			for _, f := range lg.CheckViews(b, exp, size, o) {
				k.viol(f.View+":after-downres", "view on the result of Downres: %s", f.What)
			}
		}
	}
	// b) DownresSlow directly (array-domain path through downresArray + MakeBlock)
	{
		b := cloneBlock(recv)
		var err error
		if pn := lg.Try(func() { err = b.DownresSlow(octsCopy()) }); pn != "" {
			k.viol("downres-slow:panic", "DownresSlow panicked: %s", pn)
		} else if err != nil && oddSubBlocks(size) && strings.Contains(err.Error(), "alignment") {
			k.viol("encode:odd-subblock-count-misaligned-index-table", "DownresSlow cannot encode its result: %v", err)
		} else if err != nil {
			k.viol("downres-slow:error", "DownresSlow failed on a legal input: %v", err)
		} else if got, gsz := lg.Decode(b); gsz != size {
			k.viol("downres-slow:decode", "DownresSlow result has size %v", gsz)
		} else if d := lg.Diff(got, exp, size); d != "" {
			k.viol("downres-slow:decode", "DownresSlow differs from the voxel-wise down-sampling: %s", d)
		}
	}
	// c) the octants must not be modified
	for i := 0; i < 8; i++ {
		if octs[i] != nil {
			if got, _ := lg.Decode(octs[i]); !same(got, octArr[i]) {
				k.viol("downres:source-modified", "down-sampling modified octant %d", i)
				break
			}
		}
	}
	// d) DownresFast (block-domain path; comparable when the receiver is blank, because it zero-fills absent octants)
	evenSB := (size[0]/8)%2 == 0 && (size[1]/8)%2 == 0 && (size[2]/8)%2 == 0
	if evenSB && pattern != 0 && allZero(recvArr) {
		b := cloneBlock(recv)
		var err error
		p.Count("op_downres_fast", 1)
		if pn := lg.Try(func() { err = b.DownresFast(octsCopy()) }); pn != "" {
			k.viol("downres-fast:differs-from-reference", "DownresFast panicked: %s", pn)
		} else if err != nil {
			k.viol("downres-fast:differs-from-reference", "DownresFast failed on a legal input: %v", err)
		} else if pn := lg.Try(func() {
			b.Size = lg.P3(size)
			if got, _ := lg.Decode(b); len(got) != len(exp) {
				k.viol("downres-fast:differs-from-reference", "DownresFast result has %d voxels", len(got))
			} else if d := lg.Diff(got, exp, size); d != "" {
				k.viol("downres-fast:differs-from-reference", "DownresFast differs from the voxel-wise down-sampling: %s", d)
			}
		}); pn != "" {
			k.viol("downres-fast:differs-from-reference", "decoding the result of DownresFast panicked: %s", pn)
		}
	}
	// e) array-domain DownresLabels on the assembled double-size volume (all octants present) and on one octant
	if pattern == 255 {
		bs := [3]int{2 * size[0], 2 * size[1], 2 * size[2]}
		big := make([]uint64, 8*nvox)
		for i := 0; i < 8; i++ {
			ox, oy, oz := (i&1)*size[0], ((i>>1)&1)*size[1], (i>>2)*size[2]
			for z := 0; z < size[2]; z++ {
				for y := 0; y < size[1]; y++ {
					copy(big[(oz+z)*bs[1]*bs[0]+(oy+y)*bs[0]+ox:][:size[0]], octArr[i][z*size[1]*size[0]+y*size[0]:][:size[0]])
				}
			}
		}
		checkDownresLabels(k, big, bs, exp)
	}
	for i := 0; i < 8; i++ {
		if octArr[i] != nil {
			checkDownresLabels(k, octArr[i], size, lg.NaiveDownres(octArr[i], size))
			break
		}
	}
}

func checkDownresLabels(k *checker, hi []uint64, hs [3]int, exp []uint64) {
	var lo []byte
	var err error
	p.Count("op_downres_labels", 1)
	if pn := lg.Try(func() { lo, err = labels.DownresLabels(lg.ToBytes(hi), lg.P3(hs)) }); pn != "" {
		k.viol("downres-labels:panic", "DownresLabels(%v) panicked: %s", hs, pn)
		return
	}
	if err != nil {
		k.viol("downres-labels:error", "DownresLabels(%v) failed on a legal input: %v", hs, err)
		return
	}
	if d := lg.Diff(lg.FromBytes(lo), exp, [3]int{hs[0] / 2, hs[1] / 2, hs[2] / 2}); d != "" {
		k.viol("downres-labels:decode", "DownresLabels(%v) differs from the voxel-wise down-sampling: %s", hs, d)
	}
}

func allZero(a []uint64) bool {
	for _, v := range a {
		if v != 0 {
			return false
		}
	}
	return true
}

// onlyInAbsentOctants tells whether every differing voxel lies in the eighth of an absent octant.
func onlyInAbsentOctants(got, exp []uint64, size [3]int, pattern int) bool {
	n := 0
	for i := range exp {
		if got[i] != exp[i] {
			x, y, z := i%size[0], (i/size[0])%size[1], i/(size[0]*size[1])
			o := 0
			if x >= size[0]/2 {
				o |= 1
			}
			if y >= size[1]/2 {
				o |= 2
			}
			if z >= size[2]/2 {
				o |= 4
			}
			if pattern&(1<<uint(o)) != 0 {
				return false
			}
			n++
		}
	}
	return n > 0
}
