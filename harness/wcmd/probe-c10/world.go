package main

import (
	"fmt"

	"github.com/janelia-flyem/dvid/datatype/common/labels"
	"github.com/janelia-flyem/dvid/dvid"

	lg "verif/harness/internal/labelgen"
)

// worldSplitCase: a split by sparse volume as the mutation handlers perform it.  A world of several blocks placed at
// a (possibly negative) block coordinate, one sparse volume given as runs along X in world coordinates that start
// anywhere and cross block boundaries, cut into per-block runs by dvid.RLEs.Partition, then every block split on
// its own with what Partition filed under its coordinate.  Reference: the voxel-wise split of the world array.
func worldSplitCase(c *lg.Case, i int) {
	r := c.R
	bs := []int{16, 32}[r.Intn(2)]
	size := [3]int{bs, bs, bs}
	nb := [3]int{2 + r.Intn(3), 1 + r.Intn(2), 1 + r.Intn(2)}
	org := [3]int{r.Intn(6) - 4, r.Intn(5) - 3, r.Intn(5) - 3} // block coordinate of the world's first block
	W := [3]int{nb[0] * bs, nb[1] * bs, nb[2] * bs}
	world := make([]uint64, W[0]*W[1]*W[2])
	at := func(x, y, z int) int { return (z*W[1]+y)*W[0] + x }
	// a few supervoxels as random boxes over a background
	lbls := []uint64{0, 11, 12, 13, 1 << 40, 15}
	for j := range world {
		world[j] = lbls[0]
	}
	for b := 0; b < 5+r.Intn(6); b++ {
		l := lbls[1+r.Intn(len(lbls)-1)]
		x0, y0, z0 := r.Intn(W[0]), r.Intn(W[1]), r.Intn(W[2])
		x1, y1, z1 := x0+1+r.Intn(W[0]-x0), y0+1+r.Intn(W[1]-y0), z0+1+r.Intn(W[2]-z0)
		for z := z0; z < z1; z++ {
			for y := y0; y < y1; y++ {
				for x := x0; x < x1; x++ {
					world[at(x, y, z)] = l
				}
			}
		}
	}
	present := lg.LabelsOf(world)
	var target uint64
	for _, l := range present {
		if l != 0 && (target == 0 || r.Intn(2) == 0) {
			target = l
		}
	}
	if target == 0 {
		return
	}
	// the sparse volume: rows of a random box, each row a run with its own start and length (runs may leave the
	// target, cover background, start one voxel before a block boundary, span the whole width)
	mask := make([]bool, len(world))
	var rles dvid.RLEs
	off := [3]int{org[0] * bs, org[1] * bs, org[2] * bs}
	y0, z0 := r.Intn(W[1]), r.Intn(W[2])
	y1, z1 := y0+1+r.Intn(W[1]-y0), z0+1+r.Intn(W[2]-z0)
	nruns := 0
	for z := z0; z < z1; z++ {
		for y := y0; y < y1; y++ {
			if r.Intn(4) == 0 {
				continue
			}
			x := r.Intn(W[0])
			if r.Intn(3) == 0 {
				x = (1+r.Intn(nb[0]-1))*bs - 1 - r.Intn(3) // just before a block boundary
				if x < 0 {
					x = 0
				}
			}
			n := 1 + r.Intn(W[0]-x)
			if r.Intn(4) == 0 {
				n = W[0] - x
			}
			for q := 0; q < n; q++ {
				mask[at(x+q, y, z)] = true
			}
			rles = append(rles, dvid.NewRLE(dvid.Point3d{int32(off[0] + x), int32(off[1] + y), int32(off[2] + z)}, int32(n)))
			nruns++
		}
	}
	if nruns == 0 {
		return
	}
	variant := []string{"supervoxel", "split"}[i%2]
	desc := fmt.Sprintf("case=%d world-split %s block=%d^3 world=%v blocks at block coord %v, target=%d, %d runs", c.CI, variant, bs, nb, org, target, nruns)
	c.Begin(desc)
	base := map[string]interface{}{"type": "world-split", "variant": variant, "block": bs, "blocks": nb, "origin_block": org, "target": target, "runs": nruns}
	viol := func(key, f string, a ...interface{}) {
		c.Violation("world-split:"+variant+":"+key, fmt.Sprintf(f, a...)+" | "+desc, base)
	}
	neg := org[0] < 0
	p.Seen("world_split_origin_sign", fmt.Sprintf("x-negative=%v", neg))
	p.Count("world_split_runs", nruns)

	var brles dvid.BlockRLEs
	var perr error
	if pn := lg.Try(func() { brles, perr = rles.Partition(dvid.Point3d{int32(bs), int32(bs), int32(bs)}) }); pn != "" {
		viol("partition-panic", "RLEs.Partition panicked: %s", pn)
		return
	}
	if perr != nil {
		viol("partition-error", "RLEs.Partition failed on legal runs: %v", perr)
		return
	}
	svSplit, svRemain := uint64(7001), uint64(7002)
	var wantKept, wantSplit, gotKept, gotSplit uint64
	crossing := false
	for bz := 0; bz < nb[2]; bz++ {
		for by := 0; by < nb[1]; by++ {
			for bx := 0; bx < nb[0]; bx++ {
				arr := make([]uint64, bs*bs*bs)
				exp := make([]uint64, bs*bs*bs)
				has, hit := false, false
				for z := 0; z < bs; z++ {
					for y := 0; y < bs; y++ {
						for x := 0; x < bs; x++ {
							j := (z*bs+y)*bs + x
							wj := at(bx*bs+x, by*bs+y, bz*bs+z)
							arr[j] = world[wj]
							exp[j] = arr[j]
							if arr[j] == target {
								has = true
								if mask[wj] {
									hit = true
								}
							}
						}
					}
				}
				coord := dvid.ChunkPoint3d{int32(org[0] + bx), int32(org[1] + by), int32(org[2] + bz)}
				izyx := coord.ToIZYXString()
				_, filed := brles[izyx]
				for j := range arr {
					wj := at(bx*bs+j%bs, by*bs+(j/bs)%bs, bz*bs+j/(bs*bs))
					if arr[j] != target {
						continue
					}
					if mask[wj] {
						if variant == "supervoxel" {
							exp[j] = svSplit
						} else {
							exp[j] = svSplit
						}
						wantSplit++
					} else {
						if variant == "supervoxel" {
							exp[j] = svRemain
						}
						wantKept++
					}
				}
				if hit && bx > 0 {
					crossing = true
				}
				if !has && !filed {
					continue
				}
				blk, err := lg.MakeBlock(arr, size)
				if err != nil {
					return
				}
				pb := labels.PositionedBlock{Block: *blk, BCoord: izyx}
				var res *labels.Block
				var kept, split uint64
				if variant == "supervoxel" {
					op := labels.SplitSupervoxelOp{MutID: 1, Supervoxel: target, SplitSupervoxel: svSplit, RemainSupervoxel: svRemain, Split: brles}
					if pn := lg.Try(func() { res, kept, split, err = pb.SplitSupervoxel(op) }); pn != "" {
						viol("panic", "SplitSupervoxel panicked on block %v: %s", coord, pn)
						return
					}
				} else {
					if !filed {
						// the handlers only visit blocks Partition filed runs under; nothing of the target may be in the mask here
						if hit {
							viol("block-not-filed", "block %v holds voxels of the sparse volume but RLEs.Partition filed nothing under it", coord)
						}
						gotKept += countOf(arr, target)
						continue
					}
					op := labels.SplitOp{MutID: 1, Target: target, NewLabel: svSplit, RLEs: brles[izyx]}
					if pn := lg.Try(func() { res, kept, split, err = pb.Split(op) }); pn != "" {
						viol("panic", "Split panicked on block %v: %s", coord, pn)
						return
					}
				}
				if err == nil && res == nil && !has && variant == "split" {
					continue // documented: a nil block when the target is not in the block
				}
				if err != nil || res == nil {
					viol("error", "split of block %v failed: %v", coord, err)
					return
				}
				gotKept += kept
				gotSplit += split
				got, gsz := lg.Decode(res)
				if gsz != size {
					viol("decode", "block %v: result size %v", coord, gsz)
					return
				}
				if d := lg.Diff(got, exp, size); d != "" {
					viol("voxels", "block %v differs from the voxel-wise split of the world by the sparse volume: %s", coord, d)
					return
				}
			}
		}
	}
	p.Case(fmt.Sprintf("world-split|%s|%d|%v|%v|%d|%d|%s", variant, bs, nb, org, target, nruns, lg.HashArr(W, boolArr(mask))), wantSplit > 0 && crossing)
	if gotKept != wantKept || gotSplit != wantSplit {
		viol("sizes", "summed over the blocks the split reported kept=%d split=%d, true counts kept=%d split=%d", gotKept, gotSplit, wantKept, wantSplit)
	}
}
