// dvidw: the real DVID server in-process, driven by JSON lines on stdin/stdout.
// One command per line; one reply per line.  Bodies are base64 ([]byte in JSON).
package main

import (
	"bufio"
	"encoding/json"
	"flag"
	"fmt"
	"os"
	"sync"
	"time"

	"verif/harness/internal/wk"

	"github.com/janelia-flyem/dvid/server"
)

type httpReq struct {
	Method string            `json:"method"`
	URL    string            `json:"url"`
	Body   []byte            `json:"body,omitempty"`
	Hdr    map[string]string `json:"hdr,omitempty"`
}

type cmdMsg struct {
	ID  int64  `json:"id"`
	Cmd string `json:"cmd"`
	httpReq
	Reqs      []httpReq       `json:"reqs,omitempty"`
	Fn        string          `json:"fn,omitempty"`
	Args      json.RawMessage `json:"args,omitempty"`
	Mode      string          `json:"mode,omitempty"`
	ReadUS    int64           `json:"read_us,omitempty"`
	WipeUS    int64           `json:"wipe_us,omitempty"`
	WriteUS   int64           `json:"write_us,omitempty"`
	Jitter    bool            `json:"jitter,omitempty"`
	MaxWaitMS int64           `json:"max_wait_ms,omitempty"`
	Label     string          `json:"label,omitempty"`
}

type reply struct {
	ID int64 `json:"id"`
	wk.Resp
	Resps  []wk.Resp       `json:"resps,omitempty"`
	Events []wk.WriteEvent `json:"events,omitempty"`
	Result json.RawMessage `json:"result,omitempty"`
	Err    string          `json:"err,omitempty"`
	Writes int64           `json:"writes,omitempty"`
	Busy   int             `json:"busy,omitempty"`
	OK     bool            `json:"ok"`
	Last   string          `json:"last,omitempty"`
}

var out *bufio.Writer
var outMu sync.Mutex

func send(r reply) {
	b, err := json.Marshal(r)
	if err != nil {
		b, _ = json.Marshal(reply{ID: r.ID, Err: "marshal: " + err.Error()})
	}
	outMu.Lock()
	out.Write(b)
	out.WriteByte('\n')
	out.Flush()
	outMu.Unlock()
}

func main() {
	config := flag.String("config", "", "TOML config path")
	flag.Parse()
	if err := wk.StealStdout(); err != nil {
		fmt.Fprintln(os.Stderr, "steal stdout:", err)
		os.Exit(3)
	}
	out = bufio.NewWriterSize(wk.ProtoOut, 1<<20)
	if err := wk.Boot(*config); err != nil {
		send(reply{ID: 0, Err: "boot: " + err.Error()})
		os.Exit(4)
	}
	send(reply{ID: 0, OK: true, Writes: wk.WriteCount()})

	in := bufio.NewReaderSize(os.Stdin, 1<<20)
	for {
		line, err := in.ReadBytes('\n')
		if len(line) > 0 {
			var c cmdMsg
			if jerr := json.Unmarshal(line, &c); jerr != nil {
				send(reply{Err: "bad command: " + jerr.Error()})
			} else {
				handle(&c)
			}
		}
		if err != nil {
			// stdin closed: behave like an abrupt exit (no shutdown code).
			os.Exit(0)
		}
	}
}

func handle(c *cmdMsg) {
	switch c.Cmd {
	case "http":
		wk.SetCurrentRequest(c.Label)
		r := wk.Do(c.Method, c.URL, c.Body, c.Hdr)
		send(reply{ID: c.ID, Resp: r, OK: true, Writes: wk.WriteCount()})
	case "par":
		wk.SetCurrentRequest(c.Label)
		n := len(c.Reqs)
		resps := make([]wk.Resp, n)
		var ready, done sync.WaitGroup
		gate := make(chan struct{})
		ready.Add(n)
		done.Add(n)
		for i := range c.Reqs {
			go func(i int) {
				defer done.Done()
				rq := c.Reqs[i]
				ready.Done()
				<-gate
				resps[i] = wk.Do(rq.Method, rq.URL, rq.Body, rq.Hdr)
			}(i)
		}
		ready.Wait()
		close(gate)
		done.Wait()
		send(reply{ID: c.ID, Resps: resps, OK: true, Writes: wk.WriteCount()})
	case "settle":
		mw := time.Duration(c.MaxWaitMS) * time.Millisecond
		if mw <= 0 {
			mw = 120 * time.Second
		}
		busy, ok, last := wk.Settle(mw)
		send(reply{ID: c.ID, OK: ok, Busy: busy, Last: last, Writes: wk.WriteCount()})
	case "audit":
		send(reply{ID: c.ID, OK: true, Events: wk.DrainWriteLog(), Writes: wk.WriteCount()})
	case "delay":
		wk.SetDelay(time.Duration(c.ReadUS)*time.Microsecond, time.Duration(c.WriteUS)*time.Microsecond, c.Jitter)
		wk.SetWipeDelay(time.Duration(c.WipeUS) * time.Microsecond)
		send(reply{ID: c.ID, OK: true})
	case "mode":
		// same exported setters the transfer-data RPC uses
		switch c.Mode {
		case "readonly-on":
			server.SetReadOnly(true)
		case "readonly-off":
			server.SetReadOnly(false)
		case "fullwrite-on":
			server.SetFullWrite(true)
		case "fullwrite-off":
			server.SetFullWrite(false)
		}
		send(reply{ID: c.ID, OK: true})
	case "api":
		f, found := wk.APIs[c.Fn]
		if !found {
			send(reply{ID: c.ID, Err: "unknown api fn " + c.Fn})
			return
		}
		res, err := safeAPI(f, c.Args)
		if err != nil {
			send(reply{ID: c.ID, Err: err.Error(), Writes: wk.WriteCount()})
			return
		}
		jb, err := json.Marshal(res)
		if err != nil {
			send(reply{ID: c.ID, Err: "marshal result: " + err.Error()})
			return
		}
		send(reply{ID: c.ID, OK: true, Result: jb, Writes: wk.WriteCount()})
	case "exit":
		if c.Mode == "clean" {
			wk.CleanShutdown()
			send(reply{ID: c.ID, OK: true})
			os.Exit(0)
		}
		send(reply{ID: c.ID, OK: true})
		os.Exit(137)
	default:
		send(reply{ID: c.ID, Err: "unknown cmd " + c.Cmd})
	}
}

func safeAPI(f wk.APIFunc, args json.RawMessage) (res interface{}, err error) {
	defer func() {
		if e := recover(); e != nil {
			err = fmt.Errorf("PANIC in api: %v", e)
		}
	}()
	return f(args)
}
