// probe-c15: package-level oracle for property C15 (dvid/serialize.go envelope).
//
// Phases (flag --phase, default "all"):
//
//	roundtrip  identity of DeserializeData(SerializeData(p, comp, cks), uncompress) for every payload x
//	           {none, snappy, lz4, gzip -1,1..9} x {NoChecksum, CRC32} x uncompress {true,false}; with
//	           uncompress=false the result is compared with what the format says is stored (bytes after the
//	           header) and those bytes are decoded by naive reference decoders (own LZ4 block decoder, own
//	           snappy decoder, bitwise CRC32, stdlib gzip).
//	corrupt    every single-bit flip (payloads <= 64 B), every byte substitution {0x00,0xFF,^b} and every
//	           truncation (<= 256 B), sampled for large values.  With CRC32 requested, a change at a payload
//	           offset must give an error or the identical original bytes, never different bytes as success.
//	hostile    arbitrary byte strings: never a panic (recovered here, reported per class with the minimal
//	           witness) and never a process-fatal report (input is written to PROBE_CURFILE before each call;
//	           the driver turns a dead probe into violation "deserialize-fatal").
//
// A resident-memory guard aborts the process ("fatal error: probe memory guard") when RSS exceeds 24 GiB, and the
// plain flavour additionally runs under RLIMIT_AS = 40 GiB, so a hostile size prefix cannot take the machine down.
package main

import (
	"bytes"
	"compress/gzip"
	"encoding/binary"
	"encoding/hex"
	"flag"
	"fmt"
	"hash/crc32"
	"image"
	"image/color"
	"image/jpeg"
	"io"
	"math/rand"
	"os"
	"runtime"
	"runtime/debug"
	"sort"
	"strconv"
	"strings"
	"sync/atomic"
	"syscall"
	"time"

	"verif/harness/internal/probe"

	"github.com/janelia-flyem/dvid/dvid"
)

var phase = flag.String("phase", "all", "roundtrip|corrupt|hostile|all")

// scale: 0 = quick tier under a sanitizer (5-10x slower per call: reduced generators), 1 = quick tier plain build,
// 2 = thorough tier under a sanitizer, 3 = thorough tier plain build.  Fixed case counts per scale, never a time budget.
var scale int

func pick(v ...int) int { return v[scale] }

// ---------------------------------------------------------------------------------------
// naive references

func refCRC32(b []byte) uint32 {
	if len(b) > 1<<20 {
		return crc32.ChecksumIEEE(b) // bitwise version is too slow under sanitizers for multi-MiB values
	}
	crc := ^uint32(0)
	for _, x := range b {
		crc ^= uint32(x)
		for i := 0; i < 8; i++ {
			if crc&1 != 0 {
				crc = crc>>1 ^ 0xEDB88320
			} else {
				crc >>= 1
			}
		}
	}
	return ^crc
}

// refLZ4 decodes one LZ4 block (format spec: token, literal run, 2-byte LE offset, match run).
func refLZ4(src []byte, n int) ([]byte, error) {
	dst := make([]byte, 0, n)
	i := 0
	ext := func(v int) (int, error) {
		if v != 15 {
			return v, nil
		}
		for {
			if i >= len(src) {
				return 0, fmt.Errorf("lz4 ref: truncated length")
			}
			b := src[i]
			i++
			v += int(b)
			if b != 255 {
				return v, nil
			}
		}
	}
	for i < len(src) {
		tok := src[i]
		i++
		ll, err := ext(int(tok >> 4))
		if err != nil {
			return nil, err
		}
		if i+ll > len(src) {
			return nil, fmt.Errorf("lz4 ref: literal run past input")
		}
		dst = append(dst, src[i:i+ll]...)
		i += ll
		if i == len(src) {
			break
		}
		if i+2 > len(src) {
			return nil, fmt.Errorf("lz4 ref: truncated offset")
		}
		off := int(src[i]) | int(src[i+1])<<8
		i += 2
		if off == 0 || off > len(dst) {
			return nil, fmt.Errorf("lz4 ref: bad offset %d at output %d", off, len(dst))
		}
		ml, err := ext(int(tok & 15))
		if err != nil {
			return nil, err
		}
		ml += 4
		for k := 0; k < ml; k++ {
			dst = append(dst, dst[len(dst)-off])
		}
	}
	if len(dst) != n {
		return nil, fmt.Errorf("lz4 ref: decoded %d bytes, size prefix says %d", len(dst), n)
	}
	return dst, nil
}

// refSnappy decodes the snappy block format (uvarint length, then literal / copy elements).
func refSnappy(src []byte) ([]byte, error) {
	n, k := binary.Uvarint(src)
	if k <= 0 {
		return nil, fmt.Errorf("snappy ref: bad length varint")
	}
	i := k
	dst := make([]byte, 0, int(n))
	for i < len(src) {
		tag := src[i]
		var length, off int
		switch tag & 3 {
		case 0:
			l := int(tag >> 2)
			i++
			if l >= 60 {
				nb := l - 59
				if i+nb > len(src) {
					return nil, fmt.Errorf("snappy ref: truncated literal length")
				}
				l = 0
				for j := nb - 1; j >= 0; j-- {
					l = l<<8 | int(src[i+j])
				}
				i += nb
			}
			l++
			if i+l > len(src) {
				return nil, fmt.Errorf("snappy ref: literal past input")
			}
			dst = append(dst, src[i:i+l]...)
			i += l
			continue
		case 1:
			if i+2 > len(src) {
				return nil, fmt.Errorf("snappy ref: truncated copy1")
			}
			length = 4 + int(tag>>2)&7
			off = int(tag>>5)<<8 | int(src[i+1])
			i += 2
		case 2:
			if i+3 > len(src) {
				return nil, fmt.Errorf("snappy ref: truncated copy2")
			}
			length = 1 + int(tag>>2)
			off = int(src[i+1]) | int(src[i+2])<<8
			i += 3
		case 3:
			if i+5 > len(src) {
				return nil, fmt.Errorf("snappy ref: truncated copy4")
			}
			length = 1 + int(tag>>2)
			off = int(binary.LittleEndian.Uint32(src[i+1 : i+5]))
			i += 5
		}
		if off == 0 || off > len(dst) {
			return nil, fmt.Errorf("snappy ref: bad offset")
		}
		for j := 0; j < length; j++ {
			dst = append(dst, dst[len(dst)-off])
		}
	}
	if uint64(len(dst)) != n {
		return nil, fmt.Errorf("snappy ref: decoded %d, header says %d", len(dst), n)
	}
	return dst, nil
}

func refGunzip(b []byte) ([]byte, error) {
	r, err := gzip.NewReader(bytes.NewReader(b))
	if err != nil {
		return nil, err
	}
	out, err := io.ReadAll(r)
	if err != nil {
		return nil, err
	}
	if err := r.Close(); err != nil {
		return nil, err
	}
	return out, nil
}

// ---------------------------------------------------------------------------------------
// formats

const (
	cNone   = 0
	cSnappy = 1
	cGzip   = 2
	cLZ4    = 4
	cJPEG   = 5
)

type comp struct {
	name  string
	code  int // 3-bit compression code of the format byte
	level int
	c     dvid.Compression
}

func mkComp(code, level int) comp {
	c, err := dvid.NewCompression(dvid.CompressionFormat(code), dvid.CompressionLevel(level))
	if err != nil {
		panic(fmt.Sprintf("NewCompression(%d,%d): %v", code, level, err))
	}
	names := map[int]string{cNone: "none", cSnappy: "snappy", cGzip: "gzip", cLZ4: "lz4"}
	n := names[code]
	if code == cGzip {
		n = fmt.Sprintf("gzip%d", level)
	}
	return comp{n, code, level, c}
}

func allComps() []comp {
	cs := []comp{mkComp(cNone, -1), mkComp(cSnappy, -1), mkComp(cLZ4, -1), mkComp(cGzip, -1)}
	for l := 1; l <= 9; l++ {
		cs = append(cs, mkComp(cGzip, l))
	}
	return cs
}

func cksName(k dvid.Checksum) string {
	if k == dvid.CRC32 {
		return "crc32"
	}
	return "nocks"
}

// refDecode decodes stored (possibly compressed) bytes with the naive reference for the compression code.
func refDecode(code int, stored []byte) ([]byte, error) {
	switch code {
	case cNone:
		return stored, nil
	case cSnappy:
		return refSnappy(stored)
	case cLZ4:
		if len(stored) < 4 {
			return nil, fmt.Errorf("lz4 ref: no size prefix")
		}
		return refLZ4(stored[4:], int(binary.LittleEndian.Uint32(stored[:4])))
	case cGzip:
		return refGunzip(stored)
	}
	return nil, fmt.Errorf("no reference for compression %d", code)
}

// ---------------------------------------------------------------------------------------
// guarded calls

type panicAgg struct {
	count   int
	witness []byte
	slack   bool
	unc     bool
	fn      string
	msg     string
}

var (
	p      *probe.P
	panics = map[string]*panicAgg{}
)

func panicClass(msg string) string {
	switch {
	case strings.Contains(msg, "slice bounds out of range"):
		return "slice-bounds-out-of-range"
	case strings.Contains(msg, "index out of range"):
		return "index-out-of-range"
	case strings.Contains(msg, "interface conversion"):
		return "interface-conversion"
	case strings.Contains(msg, "makeslice"):
		return "makeslice-len-out-of-range"
	case strings.Contains(msg, "nil pointer"):
		return "nil-pointer"
	}
	var sb strings.Builder
	for _, r := range strings.ToLower(msg) {
		switch {
		case r >= 'a' && r <= 'z':
			sb.WriteRune(r)
		case r == ' ' || r == ':' || r == '-':
			if sb.Len() > 0 && !strings.HasSuffix(sb.String(), "-") {
				sb.WriteByte('-')
			}
		}
		if sb.Len() >= 48 {
			break
		}
	}
	return strings.Trim(sb.String(), "-")
}

func compName(in []byte) string {
	if len(in) == 0 {
		return "empty"
	}
	switch in[0] >> 5 {
	case cNone:
		return "none"
	case cSnappy:
		return "snappy"
	case cGzip:
		return "gzip"
	case cLZ4:
		return "lz4"
	case cJPEG:
		return "jpeg"
	}
	return fmt.Sprintf("comp%d", in[0]>>5)
}

func notePanic(fn string, in []byte, slack, unc bool, msg string) {
	key := "deserialize-panic:" + compName(in) + ":" + panicClass(msg)
	if fn != "DeserializeData" {
		key = "deserialize-panic:" + fn + ":" + compName(in) + ":" + panicClass(msg)
	}
	a := panics[key]
	if a == nil {
		a = &panicAgg{}
		panics[key] = a
	}
	a.count++
	if a.witness == nil || len(in) < len(a.witness) || (len(in) == len(a.witness) && bytes.Compare(in, a.witness) < 0) {
		a.witness = append([]byte{}, in...)
		a.slack, a.unc, a.fn, a.msg = slack, unc, fn, msg
	}
	p.Count("panics_recovered", 1)
}

// every other violation is aggregated per key as well: one report per class with the shortest description seen.
type vagg struct {
	n    int
	what string
	w    interface{}
}

var (
	vaggs    = map[string]*vagg{}
	vaggKeys []string
)

func viol(key, what string, w interface{}) {
	a := vaggs[key]
	if a == nil {
		a = &vagg{}
		vaggs[key] = a
		vaggKeys = append(vaggKeys, key)
	}
	a.n++
	if a.n == 1 || len(what) < len(a.what) {
		a.what, a.w = what, w
	}
}

var emitted = map[string]bool{}

// flushViolations is called after every phase, so that a later phase that dies or is stopped by the watchdog does
// not swallow what earlier phases found; a key is reported once per probe run.
func flushViolations() {
	sort.Strings(vaggKeys)
	for _, k := range vaggKeys {
		a := vaggs[k]
		if !emitted[k] {
			emitted[k] = true
			p.Violation(k, fmt.Sprintf("%s  [%d case(s) of this class so far in this run]", a.what, a.n), a.w)
		}
	}
}

func flushPanics() {
	keys := make([]string, 0, len(panics))
	for k := range panics {
		keys = append(keys, k)
	}
	sort.Strings(keys)
	for _, k := range keys {
		a := panics[k]
		if emitted[k] {
			continue
		}
		emitted[k] = true
		p.Violation(k, fmt.Sprintf("%s(uncompress=%v) panicked on a %d-byte input (%d inputs of this class): %s; minimal witness hex=%s spare-capacity=%v",
			a.fn, a.unc, len(a.witness), a.count, a.msg, hexTrunc(a.witness), a.slack),
			map[string]interface{}{"fn": a.fn, "input_hex": hexTrunc(a.witness), "input_len": len(a.witness), "uncompress": a.unc,
				"input_has_spare_capacity": a.slack, "panic": a.msg, "inputs_in_class": a.count})
	}
}

func hexTrunc(b []byte) string {
	if len(b) > 2048 {
		return hex.EncodeToString(b[:2048]) + fmt.Sprintf("…(+%d bytes)", len(b)-2048)
	}
	return hex.EncodeToString(b)
}

// exact returns a copy of b whose capacity equals its length (a value as a store hands it out);
// slackCopy returns a copy with 64 spare bytes behind it (4 x 0x00, then 0xAA: the code under test is known to
// reslice up to 4 bytes into spare capacity when reading the lz4 size prefix; zeros keep that size small).
func exact(b []byte) []byte {
	out := make([]byte, len(b))
	copy(out, b)
	return out[:len(b):len(b)]
}

func slackCopy(b []byte) []byte {
	buf := make([]byte, len(b)+64)
	copy(buf, b)
	for i := len(b) + 4; i < len(buf); i++ {
		buf[i] = 0xAA
	}
	return buf[:len(b)]
}

type ddResult struct {
	out      []byte
	cf       dvid.CompressionFormat
	err      error
	panicked bool
	skipped  bool
}

// declaredSize reads, as the format specification does, the output size a value asks the decoder to allocate
// (lz4: 4-byte LE prefix; snappy: uvarint; jpeg: SOF dimensions).  Values that pass the checksum stage and declare
// more than maxDeclared are only offered in the dedicated "huge" class (a handful of inputs), because each costs
// seconds and gigabytes; everywhere else they are skipped and counted.
const maxDeclared = 64 << 20

var allowHuge bool

func declaredSize(in []byte) uint64 {
	if len(in) == 0 {
		return 0
	}
	body := in[1:]
	switch (in[0] >> 3) & 3 {
	case 0:
	case 1:
		if len(body) < 4 {
			return 0
		}
		body = body[4:] // whether or not the CRC matches: the filter must not depend on the checksum stage working
	default:
		return 0
	}
	switch in[0] >> 5 {
	case cLZ4:
		var pre [4]byte
		copy(pre[:], body) // short prefixes: missing bytes come from spare capacity (zeros here) or panic
		return uint64(binary.LittleEndian.Uint32(pre[:]))
	case cSnappy:
		v, k := binary.Uvarint(body)
		if k > 0 {
			return v
		}
	case cJPEG:
		return jpegSamples(body)
	}
	return 0
}

func tooBig(in []byte) bool {
	if allowHuge {
		return false
	}
	if declaredSize(in) > maxDeclared {
		p.Count("skipped_declares_over_64MiB_covered_by_huge_class", 1)
		return true
	}
	return false
}

// callDD runs DeserializeData on in; desc (or the hex of in when desc == "") is put on disk first.
func callDD(in []byte, unc, slack bool, desc string) (r ddResult) {
	if desc == "" {
		desc = fmt.Sprintf("DeserializeData(uncompress=%v, spare-capacity=%v) input_hex=%s", unc, slack, hexTrunc(in))
	}
	if unc && tooBig(in) {
		r.skipped = true
		r.err = fmt.Errorf("skipped")
		return
	}
	p.Begin(desc)
	defer func() {
		if e := recover(); e != nil {
			r.panicked = true
			notePanic("DeserializeData", in, slack, unc, fmt.Sprint(e))
		}
	}()
	r.out, r.cf, r.err = dvid.DeserializeData(in, unc)
	return
}

func callGob(in []byte, obj interface{}, desc string) (err error, panicked bool) {
	if desc == "" {
		desc = fmt.Sprintf("Deserialize(%T) input_hex=%s", obj, hexTrunc(in))
	}
	if tooBig(in) {
		return fmt.Errorf("skipped"), false
	}
	p.Begin(desc)
	defer func() {
		if e := recover(); e != nil {
			panicked = true
			notePanic("Deserialize", in, false, true, fmt.Sprint(e))
		}
	}()
	err = dvid.Deserialize(in, obj)
	return
}

// ---------------------------------------------------------------------------------------
// payloads

type payload struct {
	name string
	data []byte
}

func rnd(r *rand.Rand, n int) []byte {
	b := make([]byte, n)
	r.Read(b)
	return b
}

func textLike(r *rand.Rand, n int) []byte {
	words := []string{"block", "label", "voxel", "0,0,0", "{\"a\":1}", "dvid", " ", "\n", "aaaaaaaa", "synapse"}
	var b bytes.Buffer
	for b.Len() < n {
		b.WriteString(words[r.Intn(len(words))])
	}
	return b.Bytes()[:n]
}

func pattern(n int, pat []byte) []byte {
	b := make([]byte, n)
	for i := range b {
		b[i] = pat[i%len(pat)]
	}
	return b
}

// mixed: alternating compressible and incompressible stretches (long matches, far offsets).
func mixed(r *rand.Rand, n int) []byte {
	var b []byte
	for len(b) < n {
		k := 1 + r.Intn(3000)
		switch r.Intn(3) {
		case 0:
			b = append(b, rnd(r, k)...)
		case 1:
			b = append(b, pattern(k, []byte{byte(r.Intn(256))})...)
		default:
			if len(b) > 0 {
				s := r.Intn(len(b))
				e := s + k
				if e > len(b) {
					e = len(b)
				}
				b = append(b, b[s:e]...)
			}
		}
	}
	return b[:n]
}

func genPayloads(r *rand.Rand) []payload {
	var ps []payload
	add := func(n string, d []byte) { ps = append(ps, payload{n, d}) }
	add("empty", []byte{})
	add("nil", nil)
	for _, b := range []byte{0x00, 0x01, 0x7f, 0x80, 0xff, 0x20, 0x28, 0x48, 0x88, 0xa0} {
		add(fmt.Sprintf("1byte-%02x", b), []byte{b})
	}
	for n := 2; n <= 16; n++ {
		add(fmt.Sprintf("rand-%d", n), rnd(r, n))
		add(fmt.Sprintf("zeros-%d", n), make([]byte, n))
	}
	sizes := []int{17, 31, 32, 33, 63, 64, 65, 127, 255, 256, 257, 1000, 4095, 4096, 4097, 65535, 65536, 65537, 70000}
	if scale == 0 {
		sizes = []int{17, 64, 255, 4096, 65536, 70000}
	}
	for _, n := range sizes {
		add(fmt.Sprintf("rand-%d", n), rnd(r, n))
		add(fmt.Sprintf("zeros-%d", n), make([]byte, n))
		add(fmt.Sprintf("text-%d", n), textLike(r, n))
		add(fmt.Sprintf("pat3-%d", n), pattern(n, []byte{1, 2, 3}))
	}
	nrand := pick(8, 40, 60, 600)
	for i := 0; i < nrand; i++ {
		n := 1 + r.Intn(1<<uint(1+r.Intn(17)))
		switch r.Intn(4) {
		case 0:
			add(fmt.Sprintf("rand-%d#%d", n, i), rnd(r, n))
		case 1:
			add(fmt.Sprintf("text-%d#%d", n, i), textLike(r, n))
		case 2:
			add(fmt.Sprintf("mixed-%d#%d", n, i), mixed(r, n))
		default:
			add(fmt.Sprintf("pat-%d#%d", n, i), pattern(n, rnd(r, 1+r.Intn(9))))
		}
	}
	// payloads that are themselves envelopes (nested serialisation), and ones that start like a header
	inner, _ := dvid.SerializeData(textLike(r, 300), mkComp(cLZ4, -1).c, dvid.CRC32)
	add("nested-lz4-crc", inner)
	inner2, _ := dvid.SerializeData(textLike(r, 300), mkComp(cGzip, 6).c, dvid.NoChecksum)
	add("nested-gzip", inner2)
	add("looks-like-lz4-header", append([]byte{0x88, 0, 0, 0, 0, 0, 0, 0, 0}, rnd(r, 20)...))
	// multi-megabyte
	add("rand-1MiB", rnd(r, 1<<20))
	add("mixed-4MiB", mixed(r, 4<<20))
	if scale >= 1 {
		add("zeros-4MiB", make([]byte, 4<<20))
		add("rand-4MiB", rnd(r, 4<<20))
	}
	if scale == 3 {
		add("rand-16MiB", rnd(r, 16<<20))
		add("text-16MiB", textLike(r, 16<<20))
		add("mixed-24MiB", mixed(r, 24<<20))
	}
	return ps
}

func short(b []byte) string {
	h := crc32.ChecksumIEEE(b)
	return fmt.Sprintf("%d:%08x", len(b), h)
}

// ---------------------------------------------------------------------------------------
// phase roundtrip

func headerLen(s []byte) int {
	if len(s) == 0 {
		return 0
	}
	if (s[0]>>3)&3 == 1 {
		return 5
	}
	return 1
}

type heldResult struct {
	out, want  []byte
	desc, comp string
}

var held []heldResult

func phaseRoundtrip() {
	r := rand.New(rand.NewSource(p.Seed*7 + 1))
	pls := genPayloads(r)
	comps := allComps()
	if scale == 0 {
		comps = []comp{mkComp(cNone, -1), mkComp(cSnappy, -1), mkComp(cLZ4, -1), mkComp(cGzip, -1), mkComp(cGzip, 1), mkComp(cGzip, 9)}
	}
	sampled := 0
	for _, pl := range pls {
		big := len(pl.data) >= 1<<20
		for _, cp := range comps {
			if big && cp.code == cGzip && !(cp.level == -1 || (scale >= 1 && (cp.level == 1 || cp.level == 6 || cp.level == 9))) {
				continue
			}
			for _, ck := range []dvid.Checksum{dvid.NoChecksum, dvid.CRC32} {
				desc := fmt.Sprintf("roundtrip payload=%s(%s) comp=%s cks=%s", pl.name, short(pl.data), cp.name, cksName(ck))
				p.Begin(desc)
				var s []byte
				var serr error
				if pm := probe.Try(func() { s, serr = dvid.SerializeData(pl.data, cp.c, ck) }); pm != "" {
					viol("serialize-panic:"+cp.name, "SerializeData panicked: "+pm+" on "+desc, map[string]interface{}{"case": desc})
					continue
				}
				if serr != nil {
					viol("serialize-error:"+cp.name, "SerializeData returned an error for a legal payload: "+serr.Error()+" on "+desc, map[string]interface{}{"case": desc})
					continue
				}
				p.Count("serialize_calls", 1)
				if len(pl.data) == 0 {
					// no envelope exists for the empty payload: empty in, empty out
					for _, unc := range []bool{true, false} {
						res := callDD(exact(s), unc, false, desc+" deserialize")
						p.Case(fmt.Sprintf("rt|%s|%s|%s|%v", pl.name, cp.name, cksName(ck), unc), false)
						if res.panicked {
							continue
						}
						if res.err != nil || len(res.out) != 0 || len(s) != 0 {
							viol("roundtrip:empty-payload", fmt.Sprintf("%s: serialised to %d bytes, deserialised to %d bytes err=%v", desc, len(s), len(res.out), res.err), map[string]interface{}{"case": desc})
						}
					}
					continue
				}
				// envelope structure
				wantCk := ck
				if cp.code == cGzip {
					wantCk = dvid.NoChecksum // documented: gzip carries its own CRC and length
				}
				wantFB := byte(cp.code<<5) | byte(wantCk)<<3
				if s[0] != wantFB {
					viol("envelope:format-byte:"+cp.name, fmt.Sprintf("%s: format byte %#02x, expected %#02x", desc, s[0], wantFB), map[string]interface{}{"case": desc})
					continue
				}
				hl := headerLen(s)
				stored := s[hl:]
				if wantCk == dvid.CRC32 {
					if got, want := binary.LittleEndian.Uint32(s[1:5]), refCRC32(stored); got != want {
						viol("envelope:crc-value:"+cp.name, fmt.Sprintf("%s: stored CRC %08x, reference CRC of the stored bytes %08x", desc, got, want), map[string]interface{}{"case": desc})
					}
				}
				cf, ckd := dvid.DecodeSerializationFormat(dvid.SerializationFormat(s[0]))
				if int(cf) != cp.code || ckd != wantCk {
					viol("envelope:decode-format", fmt.Sprintf("%s: DecodeSerializationFormat(%#02x) = (%d,%d)", desc, s[0], cf, ckd), map[string]interface{}{"case": desc})
				}
				// what is stored decodes to the payload by an independent decoder
				if ref, err := refDecode(cp.code, stored); err != nil || !bytes.Equal(ref, pl.data) {
					viol("roundtrip:stored-bytes-not-decodable:"+cp.name, fmt.Sprintf("%s: reference decoder on the stored bytes: err=%v equal=%v", desc, err, err == nil && bytes.Equal(ref, pl.data)), map[string]interface{}{"case": desc})
				}
				for _, unc := range []bool{true, false} {
					in := exact(s)
					res := callDD(in, unc, false, desc+fmt.Sprintf(" deserialize uncompress=%v", unc))
					p.Case(fmt.Sprintf("rt|%s|%s|%s|%s|%v", pl.name, short(pl.data), cp.name, cksName(ck), unc), true)
					p.Count("roundtrip_"+cp.name, 1)
					if res.panicked {
						continue
					}
					key := fmt.Sprintf("roundtrip:%s:%s:uncompress=%v", cp.name, cksName(ck), unc)
					if res.err != nil {
						viol(key, fmt.Sprintf("%s: DeserializeData(uncompress=%v) failed on its own serialisation: %v", desc, unc, res.err), map[string]interface{}{"case": desc, "serialized_hex": hexTrunc(s)})
						continue
					}
					want := pl.data
					if !unc {
						want = stored
					}
					if !bytes.Equal(res.out, want) {
						viol(key, fmt.Sprintf("%s: DeserializeData(uncompress=%v) returned %d bytes (%s), expected %d bytes (%s)", desc, unc, len(res.out), short(res.out), len(want), short(want)),
							map[string]interface{}{"case": desc, "serialized_hex": hexTrunc(s), "payload_hex": hexTrunc(pl.data), "got_hex": hexTrunc(res.out)})
					}
					if int(res.cf) != cp.code {
						viol(key+":format", fmt.Sprintf("%s: reported compression %d, expected %d", desc, res.cf, cp.code), map[string]interface{}{"case": desc})
					}
					// a caller keeps what it got (a range read collects many values before it answers): results of
					// earlier calls must still be what they were after this call
					if bytes.Equal(res.out, want) && len(want) <= 16<<10 {
						held = append(held, heldResult{out: res.out, want: append([]byte{}, want...), desc: desc, comp: cp.name})
						if len(held) > 96 { // several payloads back: the same payload decodes to the same bytes in every format
							held = held[1:]
						}
					}
					for i := 0; i < len(held)-1; i++ {
						h := held[i]
						p.Count("held_results_rechecked", 1)
						if !bytes.Equal(h.out, h.want) {
							viol("roundtrip:earlier-result-changed-by-later-call:"+h.comp, fmt.Sprintf("the %d bytes DeserializeData returned for [%s] are no longer the payload after the later call [%s uncompress=%v]: now %s, expected %s",
								len(h.want), h.desc, desc, unc, short(h.out), short(h.want)), map[string]interface{}{"earlier_case": h.desc, "later_case": desc})
							held = append(held[:i], held[i+1:]...)
							i--
						}
					}
					if !bytes.Equal(in, s) {
						p.Count("input_mutated_by_deserialize", 1)
					}
				}
				// the same stored bytes through SerializePrecompressedData
				p.Begin(desc + " precompressed")
				s2, err := dvid.SerializePrecompressedData(stored, cp.c, ck)
				if err != nil || !bytes.Equal(s2, s) {
					viol("precompressed:differs:"+cp.name, fmt.Sprintf("%s: SerializePrecompressedData(stored bytes) differs from SerializeData output (err=%v)", desc, err), map[string]interface{}{"case": desc})
				}
				p.Case(fmt.Sprintf("pre|%s|%s|%s|%s", pl.name, short(pl.data), cp.name, cksName(ck)), true)
				if sampled < 1 && len(pl.data) > 8 && len(pl.data) < 40 && cp.code == cLZ4 && ck == dvid.CRC32 {
					sampled++
					p.Sample(map[string]interface{}{"phase": "roundtrip", "payload_hex": hex.EncodeToString(pl.data), "comp": cp.name, "cks": cksName(ck), "serialized_hex": hex.EncodeToString(s)})
				}
			}
		}
	}
	phaseGob(r)
}

type gobT struct {
	A int
	B string
	C []uint64
	D map[string]float64
}

func phaseGob(r *rand.Rand) {
	comps := []comp{mkComp(cNone, -1), mkComp(cSnappy, -1), mkComp(cLZ4, -1), mkComp(cGzip, -1), mkComp(cGzip, 9)}
	n := pick(10, 30, 60, 400)
	for i := 0; i < n; i++ {
		obj := gobT{A: r.Int(), B: string(textLike(r, r.Intn(200))), D: map[string]float64{}}
		for k := r.Intn(50); k > 0; k-- {
			obj.C = append(obj.C, r.Uint64())
		}
		for k := r.Intn(5); k > 0; k-- {
			obj.D[fmt.Sprint(r.Intn(100))] = r.Float64()
		}
		for _, cp := range comps {
			for _, ck := range []dvid.Checksum{dvid.NoChecksum, dvid.CRC32} {
				desc := fmt.Sprintf("gob roundtrip #%d comp=%s cks=%s", i, cp.name, cksName(ck))
				p.Begin(desc)
				s, err := dvid.Serialize(obj, cp.c, ck)
				if err != nil {
					viol("gob:serialize-error", desc+": "+err.Error(), nil)
					continue
				}
				var back gobT
				err, pan := callGob(exact(s), &back, desc)
				p.Case(fmt.Sprintf("gob|%d|%s|%s|%d", i, cp.name, cksName(ck), len(s)), true)
				p.Count("gob_roundtrips", 1)
				if pan {
					continue
				}
				if err != nil || fmt.Sprintf("%v", back) != fmt.Sprintf("%v", normGob(obj)) {
					viol("gob:roundtrip", fmt.Sprintf("%s: err=%v got=%v want=%v", desc, err, back, obj), map[string]interface{}{"serialized_hex": hexTrunc(s)})
				}
			}
		}
	}
}

// normGob: gob drops empty maps/slices (decodes them as nil); printing with %v makes nil and empty equal already.
func normGob(o gobT) gobT { return o }

// ---------------------------------------------------------------------------------------
// phase corrupt

type corruption struct {
	kind string // bit | sub00 | subff | subinv | trunc
	pos  int    // byte offset (trunc: new length)
	bit  int
}

func (c corruption) apply(s []byte) []byte {
	if c.kind == "trunc" {
		return exact(s[:c.pos])
	}
	out := exact(s)
	switch c.kind {
	case "bit":
		out[c.pos] ^= 1 << uint(c.bit)
	case "sub00":
		out[c.pos] = 0x00
	case "subff":
		out[c.pos] = 0xFF
	case "subinv":
		out[c.pos] = ^out[c.pos]
	}
	return out
}

func (c corruption) String() string {
	if c.kind == "bit" {
		return fmt.Sprintf("bit@%d.%d", c.pos, c.bit)
	}
	return fmt.Sprintf("%s@%d", c.kind, c.pos)
}

func corruptionsFor(r *rand.Rand, s []byte, payloadLen int) []corruption {
	var cs []corruption
	n := len(s)
	if payloadLen <= 64 {
		for i := 0; i < n; i++ {
			for b := 0; b < 8; b++ {
				cs = append(cs, corruption{"bit", i, b})
			}
		}
	}
	if payloadLen <= 256 {
		for i := 0; i < n; i++ {
			for _, k := range []string{"sub00", "subff", "subinv"} {
				cs = append(cs, corruption{k, i, 0})
			}
		}
		for l := 0; l < n; l++ {
			cs = append(cs, corruption{"trunc", l, 0})
		}
		return cs
	}
	// sampled for large values: header region densely, the rest at random offsets, ends included
	k := pick(24, 60, 100, 400)
	for i := 0; i < 12 && i < n; i++ {
		cs = append(cs, corruption{"bit", i, r.Intn(8)}, corruption{"subinv", i, 0})
	}
	for i := 0; i < k; i++ {
		pos := r.Intn(n)
		switch i % 4 {
		case 0:
			cs = append(cs, corruption{"bit", pos, r.Intn(8)})
		case 1:
			cs = append(cs, corruption{[]string{"sub00", "subff", "subinv"}[r.Intn(3)], pos, 0})
		case 2:
			cs = append(cs, corruption{"trunc", pos, 0})
		default:
			cs = append(cs, corruption{"bit", n - 1 - r.Intn(min(n, 16)), r.Intn(8)})
		}
	}
	cs = append(cs, corruption{"trunc", n - 1, 0}, corruption{"trunc", 1, 0}, corruption{"trunc", 5, 0}, corruption{"trunc", 6, 0}, corruption{"trunc", 0, 0})
	return cs
}

func phaseCorrupt() {
	r := rand.New(rand.NewSource(p.Seed*7 + 2))
	var pls []payload
	add := func(n string, d []byte) { pls = append(pls, payload{n, d}) }
	smalls := []int{1, 2, 3, 5, 8, 13, 16, 32, 64}
	mids := []int{100, 200, 256}
	if scale == 0 {
		smalls = []int{1, 2, 5, 13, 64}
		mids = []int{200}
	}
	for _, n := range smalls {
		add(fmt.Sprintf("rand-%d", n), rnd(r, n))
	}
	add("text-40", textLike(r, 40))
	add("zeros-64", make([]byte, 64))
	if scale >= 1 {
		add("zeros-20", make([]byte, 20))
		add("text-64", textLike(r, 64))
		add("zeros-256", make([]byte, 256))
		add("rand-65536", rnd(r, 65536))
	}
	for _, n := range mids {
		add(fmt.Sprintf("text-%d", n), textLike(r, n))
		add(fmt.Sprintf("rand-%d", n), rnd(r, n))
	}
	add("text-5000", textLike(r, 5000))
	add("mixed-70000", mixed(r, 70000))
	add("mixed-1MiB", mixed(r, 1<<20))
	if scale == 3 {
		for i := 0; i < 40; i++ {
			n := 1 + r.Intn(256)
			if i%2 == 0 {
				add(fmt.Sprintf("rand-%d#%d", n, i), rnd(r, n))
			} else {
				add(fmt.Sprintf("text-%d#%d", n, i), textLike(r, n))
			}
		}
		add("mixed-4MiB", mixed(r, 4<<20))
		add("rand-4MiB", rnd(r, 4<<20))
	}
	comps := []comp{mkComp(cNone, -1), mkComp(cSnappy, -1), mkComp(cLZ4, -1), mkComp(cGzip, -1), mkComp(cGzip, 1), mkComp(cGzip, 9)}
	if scale == 0 {
		comps = comps[:4]
	}
	sampled := 0
	for _, pl := range pls {
		for _, cp := range comps {
			for _, ck := range []dvid.Checksum{dvid.CRC32, dvid.NoChecksum} {
				s, err := dvid.SerializeData(pl.data, cp.c, ck)
				if err != nil || len(s) == 0 {
					viol("serialize-error:"+cp.name, fmt.Sprintf("corrupt phase: SerializeData(%s,%s,%s): %v", pl.name, cp.name, cksName(ck), err), nil)
					continue
				}
				hl := headerLen(s)
				stored := s[hl:]
				for _, c := range corruptionsFor(r, s, len(pl.data)) {
					bad := c.apply(s)
					inPayload := (c.kind == "trunc" && c.pos >= hl) || (c.kind != "trunc" && c.pos >= hl)
					if c.kind != "trunc" && bytes.Equal(bad, s) {
						continue // substitution by the same value: nothing was altered
					}
					// strict = the statement's case: checksums requested and payload bytes altered
					strict := ck == dvid.CRC32 && inPayload
					for _, unc := range []bool{true, false} {
						desc := fmt.Sprintf("corrupt payload=%s(%s) comp=%s cks=%s %s uncompress=%v", pl.name, short(pl.data), cp.name, cksName(ck), c, unc)
						var desc2 string
						if len(bad) <= 600 {
							desc2 = desc + " input_hex=" + hex.EncodeToString(bad)
						} else {
							desc2 = desc
						}
						res := callDD(bad, unc, false, desc2)
						p.Case(fmt.Sprintf("co|%s|%s|%s|%s|%s|%v", pl.name, short(pl.data), cp.name, cksName(ck), c, unc), strict)
						if strict {
							p.Count("corrupt_strict_"+cp.name, 1)
						} else {
							p.Count("corrupt_nocrash_only", 1)
						}
						if res.panicked || res.skipped {
							continue
						}
						if res.err != nil {
							p.Count("corrupt_detected_error", 1)
							continue
						}
						same := false
						if unc {
							same = bytes.Equal(res.out, pl.data)
						} else {
							// compressed bytes handed back: identical stored bytes, or (gzip keeps its own CRC) bytes
							// that a reference gunzip rejects or decodes to the original payload
							same = bytes.Equal(res.out, stored)
							if !same && cp.code == cGzip {
								ref, err := refGunzip(res.out)
								same = err != nil || bytes.Equal(ref, pl.data)
							}
						}
						if same {
							p.Count("corrupt_success_identical_data", 1)
							continue
						}
						if !strict {
							if ck == dvid.CRC32 {
								p.Count("notclaimed_header_corruption_returned_other_data", 1)
							} else {
								p.Count("notclaimed_nochecksum_corruption_returned_other_data", 1)
							}
							continue
						}
						if c.kind == "trunc" && c.pos == 0 {
							continue // unreachable: pos 0 < header length
						}
						key := fmt.Sprintf("corruption-undetected:%s:%s:uncompress=%v", cp.name, c.kind, unc)
						viol(key, fmt.Sprintf("%s: altered value deserialised successfully to %d different bytes (%s), original payload %s", desc, len(res.out), short(res.out), short(pl.data)),
							map[string]interface{}{"case": desc, "original_serialized_hex": hexTrunc(s), "corrupted_hex": hexTrunc(bad), "returned_hex": hexTrunc(res.out), "payload_hex": hexTrunc(pl.data)})
					}
					if sampled < 1 && strict && c.kind == "bit" && len(pl.data) >= 8 && cp.code == cLZ4 {
						sampled++
						p.Sample(map[string]interface{}{"phase": "corrupt", "payload_hex": hex.EncodeToString(pl.data), "comp": cp.name, "cks": "crc32", "corruption": c.String(), "corrupted_hex": hex.EncodeToString(bad)})
					}
				}
				// truncation to zero length: what remains is the legal encoding of the empty payload (no envelope exists
				// for it), so no envelope can report it; observed and counted, not judged.
				res := callDD([]byte{}, true, false, "truncate-to-empty")
				if !res.panicked && res.err == nil && len(res.out) == 0 {
					p.Count("notjudged_truncate_to_zero_reads_as_empty_value", 1)
				}
			}
		}
	}
}

func min(a, b int) int {
	if a < b {
		return a
	}
	return b
}

// ---------------------------------------------------------------------------------------
// phase hostile

func fb(code int, cks int) byte { return byte(code<<5) | byte(cks<<3) }

// withCRC builds format byte + CRC32(body) + body.
func withCRC(code int, body []byte) []byte {
	out := make([]byte, 5+len(body))
	out[0] = fb(code, 1)
	binary.LittleEndian.PutUint32(out[1:5], crc32.ChecksumIEEE(body))
	copy(out[5:], body)
	return out
}

func noCRC(code int, body []byte) []byte {
	return append([]byte{fb(code, 0)}, body...)
}

func le32(v uint32) []byte {
	b := make([]byte, 4)
	binary.LittleEndian.PutUint32(b, v)
	return b
}

func grayJPEG(w, h int, r *rand.Rand) []byte {
	img := image.NewGray(image.Rect(0, 0, w, h))
	r.Read(img.Pix)
	var b bytes.Buffer
	jpeg.Encode(&b, img, &jpeg.Options{Quality: 80})
	return b.Bytes()
}

func colourJPEG(w, h int, r *rand.Rand) []byte {
	img := image.NewRGBA(image.Rect(0, 0, w, h))
	for y := 0; y < h; y++ {
		for x := 0; x < w; x++ {
			img.Set(x, y, color.RGBA{uint8(r.Intn(256)), uint8(r.Intn(256)), uint8(r.Intn(256)), 255})
		}
	}
	var b bytes.Buffer
	jpeg.Encode(&b, img, &jpeg.Options{Quality: 80})
	return b.Bytes()
}

var nHostile, nReached int

// hostile offers one byte string to every entry point; huge = expected to request a multi-GiB buffer.
func hostile(class string, in []byte, huge bool) {
	nHostile++
	p.Count("hostile_"+class, 1)
	variants := []bool{false}
	if !huge {
		variants = []bool{false, true}
	}
	reached := false
	ddPanicked := false
	allowHuge = huge
	defer func() { allowHuge = false }()
	for _, slack := range variants {
		for _, unc := range []bool{false, true} {
			var buf []byte
			if slack {
				buf = slackCopy(in)
			} else {
				buf = exact(in)
			}
			res := callDD(buf, unc, slack, "")
			if !unc && !res.panicked && res.err == nil && len(in) > 0 {
				reached = true
			}
			if slack {
				full := buf[:cap(buf)]
				for i, x := range full[len(in):] {
					if (i < 4 && x != 0) || (i >= 4 && x != 0xAA) {
						p.Count("spare_capacity_overwritten", 1)
						break
					}
				}
			}
			if !bytes.Equal(buf, in) {
				p.Count("input_mutated_by_deserialize", 1)
			}
			if res.skipped {
				continue
			}
			if res.panicked {
				ddPanicked = true
				p.Count("hostile_outcome_panic", 1)
			} else if res.err != nil {
				p.Count("hostile_outcome_error", 1)
			} else {
				p.Count("hostile_outcome_success", 1)
			}
			if huge {
				res.out = nil
				runtime.GC()
				debug.FreeOSMemory()
			}
		}
	}
	if !huge && !ddPanicked { // Deserialize = DeserializeData + gob decoding: only the gob stage is new here
		var g1 gobT
		callGob(exact(in), &g1, "")
		var g2 map[string]interface{}
		callGob(exact(in), &g2, "")
		var g3 []byte
		callGob(exact(in), &g3, "")
	}
	if reached {
		nReached++
	}
	// distinct by content; non-trivial when the value passes the header + checksum stage, i.e. the bytes
	// reach the per-compression decoder
	p.Case("ho|"+class+"|"+short(in)+"|"+hex.EncodeToString(in[:min(len(in), 24)]), reached)
}

func phaseHostile() {
	r := rand.New(rand.NewSource(p.Seed*7 + 3))
	// A. format byte sweep x lengths 0..16 x fills; CRC fixed up for the variants that carry one
	for f := 0; f < 256; f++ {
		for n := 0; n <= 16; n++ {
			for fill := 0; fill < 4; fill++ {
				if scale == 0 && (fill == 0 || fill == 2) && f%8 != 0 {
					continue // sanitizer quick run: all four fills only for format bytes without reserved bits
				}
				tail := make([]byte, n)
				switch fill {
				case 0:
				case 1:
					for i := range tail {
						tail[i] = 0xFF
					}
				case 2:
					for i := range tail {
						tail[i] = byte(i + 1)
					}
				default:
					r.Read(tail)
				}
				in := append([]byte{byte(f)}, tail...)
				hostile("sweep", in, false)
				if (f>>3)&3 == 1 && n >= 4 {
					fixed := append([]byte{}, in...)
					binary.LittleEndian.PutUint32(fixed[1:5], crc32.ChecksumIEEE(fixed[5:]))
					hostile("sweep-crc-ok", fixed, false)
				}
			}
		}
	}
	hostile("sweep", []byte{}, false)
	hostile("sweep", nil, false)

	// B. lz4 size prefixes
	small := textLike(r, 300)
	validLZ4, _ := dvid.SerializeData(small, mkComp(cLZ4, -1).c, dvid.NoChecksum)
	lzBody := validLZ4[5:] // compressed block without format byte and size prefix
	bodies := [][]byte{{}, {0x00}, {0x10, 0x41}, {0xF0}, {0xFF, 0xFF, 0xFF}, {0x0F, 0x01, 0x00, 0xFF, 0xFF}, lzBody, lzBody[:len(lzBody)/2], rnd(r, 5), rnd(r, 40)}
	sizes := []uint32{0, 1, 2, 3, 4, 15, 16, 255, 299, 300, 301, 4096, 65536, 1 << 24, 1 << 28}
	for _, sz := range sizes {
		for _, b := range bodies {
			body := append(le32(sz), b...)
			hostile("lz4-prefix", noCRC(cLZ4, body), false)
			hostile("lz4-prefix", withCRC(cLZ4, body), false)
		}
	}
	for k := 0; k < 4; k++ { // size prefix itself cut short
		hostile("lz4-short-prefix", noCRC(cLZ4, le32(300)[:k]), false)
		hostile("lz4-short-prefix", withCRC(cLZ4, le32(300)[:k]), false)
	}
	// C. snappy declared lengths
	validSn, _ := dvid.SerializeData(small, mkComp(cSnappy, -1).c, dvid.NoChecksum)
	for _, dl := range []uint64{0, 1, 299, 301, 1 << 20, 1 << 28} {
		hdr := make([]byte, 10)
		k := binary.PutUvarint(hdr, dl)
		_, k0 := binary.Uvarint(validSn[1:])
		for _, b := range [][]byte{{}, validSn[1+k0:], rnd(r, 7)} {
			body := append(append([]byte{}, hdr[:k]...), b...)
			hostile("snappy-len", noCRC(cSnappy, body), false)
			hostile("snappy-len", withCRC(cSnappy, body), false)
		}
	}
	hostile("snappy-len", noCRC(cSnappy, []byte{0xFF, 0xFF, 0xFF, 0xFF, 0xFF, 0xFF, 0xFF, 0xFF, 0xFF, 0x7F}), false)
	hostile("snappy-len", noCRC(cSnappy, []byte{0x80}), false)

	// E. jpeg values: the envelope accepts the format code, so any image a decoder accepts is a legal-looking value
	jg := grayJPEG(8, 8, r)
	jc := colourJPEG(8, 8, r)
	for _, j := range [][]byte{jg, grayJPEG(1, 1, r), grayJPEG(17, 3, r), jc, colourJPEG(1, 1, r), colourJPEG(16, 16, r)} {
		hostile("jpeg", noCRC(cJPEG, j), false)
		hostile("jpeg", withCRC(cJPEG, j), false)
	}

	// D. mutated valid envelopes (CRC recomputed, or none) so that damaged bytes reach the decoders
	var seeds [][2]interface{}
	for _, cp := range []comp{mkComp(cSnappy, -1), mkComp(cLZ4, -1), mkComp(cGzip, -1), mkComp(cGzip, 9)} {
		for _, d := range [][]byte{small, make([]byte, 1000), rnd(r, 100), mixed(r, 5000), {7}} {
			s, _ := dvid.SerializeData(d, cp.c, dvid.NoChecksum)
			seeds = append(seeds, [2]interface{}{int(cp.code), s[1:]})
		}
	}
	seeds = append(seeds, [2]interface{}{cJPEG, jg}, [2]interface{}{cJPEG, jc}, [2]interface{}{cJPEG, grayJPEG(40, 24, r)})
	nm := pick(3000, 12000, 30000, 300000)
	for i := 0; i < nm; i++ {
		sd := seeds[r.Intn(len(seeds))]
		code, body := sd[0].(int), append([]byte{}, sd[1].([]byte)...)
		for k := 1 + r.Intn(3); k > 0 && len(body) > 0; k-- {
			switch r.Intn(6) {
			case 0:
				body[r.Intn(len(body))] ^= 1 << uint(r.Intn(8))
			case 1:
				body[r.Intn(len(body))] = byte(r.Intn(256))
			case 2:
				body = body[:r.Intn(len(body)+1)]
			case 3:
				body = append(body, rnd(r, 1+r.Intn(8))...)
			case 4: // damage near the front, where length fields live
				body[r.Intn(min(len(body), 12))] = []byte{0, 0xFF, 0x7F, 0x80}[r.Intn(4)]
			default:
				a := r.Intn(len(body))
				b := a + r.Intn(len(body)-a+1)
				body = append(body[:a], body[b:]...)
			}
		}
		if i%2 == 0 {
			hostile("mutated-"+compNameCode(code), noCRC(code, body), false)
		} else {
			hostile("mutated-crc-ok-"+compNameCode(code), withCRC(code, body), false)
		}
	}
	// F. random blobs
	nb := pick(1000, 4000, 10000, 100000)
	for i := 0; i < nb; i++ {
		hostile("random", rnd(r, r.Intn(1<<uint(r.Intn(10)))), false)
	}

	// G. sizes that ask for multi-GiB buffers (few; memory is released after each)
	for _, sz := range []uint32{1 << 31, 1<<31 + 1, 1<<32 - 1} {
		for _, b := range [][]byte{{}, lzBody} {
			body := append(le32(sz), b...)
			hostile("lz4-prefix-huge", noCRC(cLZ4, body), true)
		}
	}
	hostile("lz4-prefix-huge", withCRC(cLZ4, append(le32(1<<32-1), lzBody...)), true)
	for _, dl := range []uint64{1 << 31, 1<<32 - 1} {
		hdr := make([]byte, 10)
		k := binary.PutUvarint(hdr, dl)
		hostile("snappy-len-huge", noCRC(cSnappy, append(hdr[:k], 0x00, 0x41)), true)
	}
	p.Count("hostile_inputs", nHostile)
	p.Count("hostile_inputs_reaching_a_decoder", nReached)
	p.Count("peak_rss_MiB", int(peakRSS.Load()>>20))
	p.Sample(map[string]interface{}{"phase": "hostile", "example_input_hex": hex.EncodeToString(withCRC(cLZ4, append(le32(300), lzBody[:10]...)))})
}

func compNameCode(code int) string { return compName([]byte{byte(code << 5)}) }

// jpegSamples scans for SOF markers and returns the largest declared width*height*components.
func jpegSamples(b []byte) uint64 {
	var m uint64
	for i := 0; i+9 < len(b); i++ {
		if b[i] == 0xFF && (b[i+1] == 0xC0 || b[i+1] == 0xC1 || b[i+1] == 0xC2) {
			h := uint64(b[i+5])<<8 | uint64(b[i+6])
			w := uint64(b[i+7])<<8 | uint64(b[i+8])
			if v := h * w * (uint64(b[i+9]) + 1); v > m {
				m = v
			}
		}
	}
	return m
}

// ---------------------------------------------------------------------------------------
// memory guard

var peakRSS atomic.Uint64

func rssBytes() uint64 {
	b, err := os.ReadFile("/proc/self/statm")
	if err != nil {
		return 0
	}
	f := strings.Fields(string(b))
	if len(f) < 2 {
		return 0
	}
	pages, _ := strconv.ParseUint(f[1], 10, 64)
	return pages * uint64(os.Getpagesize())
}

func memoryGuard(limit uint64) {
	go func() {
		for {
			r := rssBytes()
			if r > peakRSS.Load() {
				peakRSS.Store(r)
			}
			if r > limit {
				fmt.Fprintf(os.Stderr, "fatal error: probe memory guard: resident set %d MiB exceeds %d MiB while deserialising\n", r>>20, limit>>20)
				os.Exit(97)
			}
			time.Sleep(10 * time.Millisecond)
		}
	}()
}

// phaseSequence: serialisation must not depend on what was serialised before.  Pairs and triples of payloads of nearly
// equal size (differences of 1, 15, 16, 17, n/255, n/255+16 ... bytes around sizes where an implementation might start
// reusing buffers: 4 KiB ... 1 MiB), incompressible and compressible, are serialised back to back on one goroutine
// (pinned to its thread) and each must round-trip; a few are also run from 8 goroutines at once.
func phaseSequence() {
	r := rand.New(rand.NewSource(p.Seed*13 + 5))
	comps := []comp{mkComp(cLZ4, -1), mkComp(cSnappy, -1), mkComp(cGzip, -1), mkComp(cNone, -1)}
	bases := []int{4 << 10, 64 << 10, 65535, 100000, 256 << 10, 1 << 20}
	if scale == 0 {
		bases = []int{64 << 10, 100000, 256 << 10}
	}
	check := func(cp comp, ck dvid.Checksum, data []byte, desc string) {
		p.Begin(desc)
		var s []byte
		var serr error
		if pm := probe.Try(func() { s, serr = dvid.SerializeData(data, cp.c, ck) }); pm != "" {
			viol("sequence:serialize-panic:"+cp.name, "SerializeData panicked: "+pm+" on "+desc, map[string]interface{}{"case": desc})
			return
		}
		if serr != nil {
			viol("sequence:serialize-error:"+cp.name, fmt.Sprintf("SerializeData refused a legal value (%v) that it accepts in isolation: %s", serr, desc), map[string]interface{}{"case": desc})
			return
		}
		res := callDD(s, true, false, desc)
		p.Case("sequence|"+cp.name+"|"+cksName(ck)+"|"+short(data), true)
		p.Count("sequence_serialisations", 1)
		if res.panicked || res.err != nil || !bytes.Equal(res.out, data) {
			viol("sequence:roundtrip:"+cp.name, fmt.Sprintf("value serialised right after a value of nearly the same size does not deserialise to itself (err=%v, %d bytes back): %s", res.err, len(res.out), desc), map[string]interface{}{"case": desc})
		}
	}
	runtime.LockOSThread()
	for _, n := range bases {
		deltas := []int{0, 1, 15, 16, 17, 100, n / 255, n/255 + 15, n/255 + 16, n/255 + 17, n / 2}
		for _, cp := range comps {
			for _, incompressible := range []bool{true, false} {
				for _, d := range deltas {
					if d >= n {
						continue
					}
					for _, order := range []string{"small-then-large", "large-then-small"} {
						sizes := []int{n - d, n}
						if order == "large-then-small" {
							sizes = []int{n, n - d}
						}
						for k, sz := range sizes {
							var data []byte
							if incompressible {
								data = rnd(r, sz)
							} else {
								data = pattern(sz, []byte("abcdefgh"))
							}
							ck := []dvid.Checksum{dvid.NoChecksum, dvid.CRC32}[(d+k)%2]
							check(cp, ck, data, fmt.Sprintf("sequence base=%d delta=%d %s #%d size=%d incompressible=%v comp=%s", n, d, order, k, sz, incompressible, cp.name))
						}
					}
				}
			}
		}
	}
	runtime.UnlockOSThread()
}

func main() {
	p = probe.New()
	if !p.Quick() {
		scale = 2
	}
	if p.Flavour == "" {
		scale++
	}
	memoryGuard(24 << 30)
	debug.SetMemoryLimit(3 << 30) // makes the collector return multi-GiB garbage promptly; not a verdict
	if p.Flavour == "" {
		lim := syscall.Rlimit{Cur: 40 << 30, Max: 40 << 30}
		syscall.Setrlimit(syscall.RLIMIT_AS, &lim)
	}
	switch *phase {
	case "roundtrip":
		phaseRoundtrip()
	case "corrupt":
		phaseCorrupt()
	case "hostile":
		phaseHostile()
	case "sequence":
		phaseSequence()
	default:
		phaseSequence()
		flushViolations()
		phaseRoundtrip()
		flushViolations()
		phaseCorrupt()
		flushViolations()
		phaseHostile()
	}
	flushViolations()
	flushPanics()
	p.Done()
}
