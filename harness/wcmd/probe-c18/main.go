// probe-c18: package-level oracles for property C18 (spatial keys, packed block indices, run-length volumes,
// ROI span intersection).  Reference models are deliberately naive: tuple comparison for key order, explicit voxel
// sets (map[[3]int32]bool) for every run-length operation, block sets for ROI spans.
//
// Sections (flag --section, default "all"): keys | packed | rle | roifn.
package main

import (
	"bytes"
	"encoding/binary"
	"flag"
	"fmt"
	"math"
	"math/rand"
	"sort"
	"strings"

	"verif/harness/internal/probe"

	"github.com/janelia-flyem/dvid/datatype/common/labels"
	"github.com/janelia-flyem/dvid/datatype/roi"
	"github.com/janelia-flyem/dvid/dvid"
)

var section = flag.String("section", "all", "keys|packed|rle|roifn|all")

var p *probe.P

type pt [3]int32 // x, y, z

// violations are aggregated per key: one report per class with the smallest witness seen and the number of cases.
type agg struct {
	n    int
	what string
	w    map[string]interface{}
}

var (
	aggs    = map[string]*agg{}
	aggKeys []string
)

func viol(key, what string, w map[string]interface{}) {
	a := aggs[key]
	if a == nil {
		a = &agg{}
		aggs[key] = a
		aggKeys = append(aggKeys, key)
	}
	a.n++
	if a.n == 1 || len(what) < len(a.what) {
		a.what, a.w = what, w
	}
}

func flushViolations() {
	sort.Strings(aggKeys)
	for _, k := range aggKeys {
		a := aggs[k]
		p.Violation(k, fmt.Sprintf("%s  [%d case(s) of this class in this run]", a.what, a.n), a.w)
	}
}

// ---------------------------------------------------------------------------------------
// keys

var boundary = []int32{math.MinInt32, -(1 << 20), -(1 << 20) + 1, -1, 0, 1, 1<<20 - 1, math.MaxInt32}

func cmpTuple(a, b pt) int { // numeric (z, y, x) order
	for _, d := range []int{2, 1, 0} {
		if a[d] < b[d] {
			return -1
		}
		if a[d] > b[d] {
			return 1
		}
	}
	return 0
}

func sign(v int) int {
	if v < 0 {
		return -1
	}
	if v > 0 {
		return 1
	}
	return 0
}

func randCoord(r *rand.Rand) int32 {
	switch r.Intn(6) {
	case 0:
		return boundary[r.Intn(len(boundary))]
	case 1:
		return boundary[r.Intn(len(boundary))] + int32(r.Intn(5)) - 2 // wraps at the int32 ends on purpose
	case 2:
		return int32(r.Intn(513) - 256)
	case 3:
		return int32(r.Uint32())
	case 4:
		return int32(1) << uint(r.Intn(31)) * int32(1-2*r.Intn(2))
	default:
		return int32(r.Intn(1<<21) - 1<<20)
	}
}

func keyRoundTrip(q pt) []byte {
	p3 := dvid.Point3d{q[0], q[1], q[2]}
	b := p3.ToZYXBytes()
	p.Begin(fmt.Sprintf("key roundtrip %v", q))
	bad := func(what string) {
		viol("key:roundtrip:"+what, fmt.Sprintf("point (x,y,z)=%v: %s; key bytes %x", q, what, b), map[string]interface{}{"point_xyz": q, "key_hex": fmt.Sprintf("%x", b)})
	}
	if len(b) != 12 {
		bad(fmt.Sprintf("key length %d", len(b)))
		return b
	}
	var back dvid.Point3d
	if err := back.FromZYXBytes(b); err != nil || back != p3 {
		bad(fmt.Sprintf("FromZYXBytes(ToZYXBytes(p)) = %v err=%v", back, err))
	}
	idx := dvid.IndexZYX{q[0], q[1], q[2]}
	if !bytes.Equal(idx.Bytes(), b) {
		bad("IndexZYX.Bytes differs from Point3d.ToZYXBytes")
	}
	var idx2 dvid.IndexZYX
	if err := idx2.IndexFromBytes(b); err != nil || idx2 != idx {
		bad(fmt.Sprintf("IndexZYX.IndexFromBytes = %v err=%v", idx2, err))
	}
	s := idx.ToIZYXString()
	if string(s) != string(b) {
		bad("IZYXString differs from key bytes")
	}
	if s2 := (dvid.ChunkPoint3d{q[0], q[1], q[2]}).ToIZYXString(); s2 != s {
		bad("ChunkPoint3d.ToIZYXString differs")
	}
	if x, y, z, err := s.Unpack(); err != nil || x != q[0] || y != q[1] || z != q[2] {
		bad(fmt.Sprintf("IZYXString.Unpack = (%d,%d,%d) err=%v", x, y, z, err))
	}
	if c, err := s.ToChunkPoint3d(); err != nil || c != (dvid.ChunkPoint3d{q[0], q[1], q[2]}) {
		bad(fmt.Sprintf("IZYXString.ToChunkPoint3d = %v err=%v", c, err))
	}
	if i3, err := s.IndexZYX(); err != nil || i3 != idx {
		bad(fmt.Sprintf("IZYXString.IndexZYX = %v err=%v", i3, err))
	}
	if z, err := s.Z(); err != nil || z != q[2] {
		bad(fmt.Sprintf("IZYXString.Z = %d err=%v", z, err))
	}
	// the little-endian (non-key) binary form round-trips too
	if mb, err := idx.MarshalBinary(); err != nil {
		bad("IndexZYX.MarshalBinary error " + err.Error())
	} else {
		var i4 dvid.IndexZYX
		if err := i4.UnmarshalBinary(mb); err != nil || i4 != idx {
			bad(fmt.Sprintf("IndexZYX.UnmarshalBinary(MarshalBinary) = %v err=%v", i4, err))
		}
	}
	return b
}

func orderCase(a, b pt, ka, kb []byte, class string) {
	want := cmpTuple(a, b)
	got := sign(bytes.Compare(ka, kb))
	gotS := 0
	sa, sb := dvid.IZYXString(ka), dvid.IZYXString(kb)
	if sa < sb {
		gotS = -1
	} else if sa > sb {
		gotS = 1
	}
	p.Case(fmt.Sprintf("ord|%v|%v", a, b), a != b)
	if got != want || gotS != want {
		cls := "same-sign"
		for d := 0; d < 3; d++ {
			if (a[d] < 0) != (b[d] < 0) {
				cls = "across-zero"
			}
		}
		viol("key:order:"+cls, fmt.Sprintf("points (x,y,z) %v vs %v: (z,y,x) numeric order %d, key byte order %d, IZYXString order %d; keys %x %x", a, b, want, got, gotS, ka, kb),
			map[string]interface{}{"a_xyz": a, "b_xyz": b, "key_a": fmt.Sprintf("%x", ka), "key_b": fmt.Sprintf("%x", kb), "class": class})
	}
}

func sectionKeys() {
	r := rand.New(rand.NewSource(p.Seed*11 + 1))
	// all points over the boundary set, all ordered pairs of them
	var pts []pt
	var keys [][]byte
	for _, z := range boundary {
		for _, y := range boundary {
			for _, x := range boundary {
				q := pt{x, y, z}
				pts = append(pts, q)
				keys = append(keys, keyRoundTrip(q))
				p.Case(fmt.Sprintf("key|%v", q), true)
			}
		}
	}
	p.Begin("key order: all pairs over the boundary set")
	for i := range pts {
		for j := range pts {
			orderCase(pts[i], pts[j], keys[i], keys[j], "boundary-pair")
		}
	}
	p.Count("key_boundary_points", len(pts))
	p.Count("key_boundary_pairs", len(pts)*len(pts))
	// random points and pairs: independent, neighbours (differ by +-1 in one coordinate), same z / same z,y
	n := p.N(200000, 1000000)
	for i := 0; i < n; i++ {
		a := pt{randCoord(r), randCoord(r), randCoord(r)}
		var b pt
		switch r.Intn(5) {
		case 0:
			b = pt{randCoord(r), randCoord(r), randCoord(r)}
		case 1:
			b = a
			b[r.Intn(3)] += int32(1 - 2*r.Intn(2)) // may wrap: still a legal int32 coordinate
		case 2:
			b = pt{randCoord(r), randCoord(r), a[2]}
		case 3:
			b = pt{randCoord(r), a[1], a[2]}
		default:
			b = pt{a[0], a[1], randCoord(r)}
		}
		ka := keyRoundTrip(a)
		kb := keyRoundTrip(b)
		p.Case(fmt.Sprintf("key|%v", a), true)
		orderCase(a, b, ka, kb, "random-pair")
		if i < 2 {
			p.Sample(map[string]interface{}{"section": "keys", "a_xyz": a, "b_xyz": b, "key_a": fmt.Sprintf("%x", ka), "key_b": fmt.Sprintf("%x", kb), "tuple_order": cmpTuple(a, b)})
		}
	}
	p.Count("key_random_pairs", n)
	// a sorted run of keys decodes to a sorted run of tuples (sort by bytes, compare with sort by tuple)
	for k := 0; k < p.N(20, 400); k++ {
		m := 50 + r.Intn(200)
		qs := make([]pt, m)
		for i := range qs {
			qs[i] = pt{randCoord(r), randCoord(r), randCoord(r)}
		}
		byKey := append([]pt{}, qs...)
		sort.SliceStable(byKey, func(i, j int) bool {
			a, b := byKey[i], byKey[j]
			return bytes.Compare(dvid.Point3d{a[0], a[1], a[2]}.ToZYXBytes(), dvid.Point3d{b[0], b[1], b[2]}.ToZYXBytes()) < 0
		})
		byTuple := append([]pt{}, qs...)
		sort.SliceStable(byTuple, func(i, j int) bool { return cmpTuple(byTuple[i], byTuple[j]) < 0 })
		p.Case(fmt.Sprintf("sortrun|%d|%v", k, qs[0]), true)
		for i := range byKey {
			if byKey[i] != byTuple[i] {
				viol("key:order:sorted-run", fmt.Sprintf("sorting %d points by key bytes and by (z,y,x) tuples disagrees at position %d: %v vs %v", m, i, byKey[i], byTuple[i]), map[string]interface{}{"points": qs})
				break
			}
		}
	}
}

// ---------------------------------------------------------------------------------------
// packed block index

func packedCase(q pt, inRange bool) {
	p.Begin(fmt.Sprintf("packed index %v", q))
	var code uint64
	if pm := probe.Try(func() { code = labels.EncodeBlockIndex(q[0], q[1], q[2]) }); pm != "" {
		viol("packed:panic", fmt.Sprintf("EncodeBlockIndex%v panicked: %s", q, pm), map[string]interface{}{"point_xyz": q})
		return
	}
	var x, y, z int32
	var s dvid.IZYXString
	if pm := probe.Try(func() { x, y, z = labels.DecodeBlockIndex(code); s = labels.BlockIndexToIZYXString(code) }); pm != "" {
		viol("packed:panic", fmt.Sprintf("DecodeBlockIndex(%#x) panicked: %s", code, pm), map[string]interface{}{"point_xyz": q})
		return
	}
	p.Case(fmt.Sprintf("packed|%v", q), inRange)
	if !inRange {
		p.Count("packed_out_of_documented_range_nocrash_only", 1)
		return
	}
	bad := func(what string) {
		cls := "interior"
		for d := 0; d < 3; d++ {
			if q[d] == 1<<20-1 || q[d] == -(1<<20)+1 {
				cls = "range-edge"
			}
		}
		viol("packed:roundtrip:"+cls, fmt.Sprintf("block (x,y,z)=%v code %#x: %s", q, code, what), map[string]interface{}{"point_xyz": q, "code": fmt.Sprintf("%#x", code)})
	}
	if x != q[0] || y != q[1] || z != q[2] {
		bad(fmt.Sprintf("DecodeBlockIndex gives (%d,%d,%d)", x, y, z))
	}
	want := dvid.ChunkPoint3d{q[0], q[1], q[2]}.ToIZYXString()
	if s != want {
		bad(fmt.Sprintf("BlockIndexToIZYXString gives %s", s))
	}
	if c2, err := labels.IZYXStringToBlockIndex(want); err != nil || c2 != code {
		bad(fmt.Sprintf("IZYXStringToBlockIndex gives %#x err=%v", c2, err))
	}
	if code>>63 != 0 {
		bad("most significant bit set (documented empty)")
	}
}

func sectionPacked() {
	r := rand.New(rand.NewSource(p.Seed*11 + 2))
	edge := []int32{-(1 << 20) + 1, -(1 << 20) + 2, -1025, -1024, -2, -1, 0, 1, 2, 1023, 1024, 1<<19 - 1, 1 << 19, 1<<20 - 2, 1<<20 - 1}
	for _, z := range edge {
		for _, y := range edge {
			for _, x := range edge {
				packedCase(pt{x, y, z}, true)
			}
		}
	}
	p.Count("packed_edge_points", len(edge)*len(edge)*len(edge))
	n := p.N(100000, 1000000)
	rc := func() int32 {
		switch r.Intn(4) {
		case 0:
			return edge[r.Intn(len(edge))]
		case 1:
			return int32(r.Intn(2001) - 1000)
		default:
			return int32(r.Intn(1<<21-1) - (1<<20 - 1))
		}
	}
	seen := map[uint64]pt{}
	for i := 0; i < n; i++ {
		q := pt{rc(), rc(), rc()}
		packedCase(q, true)
		if i < 20000 { // injectivity over a sample
			c := labels.EncodeBlockIndex(q[0], q[1], q[2])
			if o, ok := seen[c]; ok && o != q {
				viol("packed:collision", fmt.Sprintf("blocks %v and %v share packed index %#x", o, q, c), map[string]interface{}{"a": o, "b": q})
			}
			seen[c] = q
		}
		if i == 0 {
			p.Sample(map[string]interface{}{"section": "packed", "block_xyz": q, "code": fmt.Sprintf("%#x", labels.EncodeBlockIndex(q[0], q[1], q[2]))})
		}
	}
	// outside the documented range: must not crash (values are not claimed)
	for _, v := range []int32{-(1 << 20), 1 << 20, math.MinInt32, math.MaxInt32, 1<<20 + 1, -(1 << 21)} {
		packedCase(pt{v, 0, 0}, false)
		packedCase(pt{0, v, 0}, false)
		packedCase(pt{0, 0, v}, false)
	}
}

// ---------------------------------------------------------------------------------------
// run-length volumes

type run struct{ x, y, z, n int32 }

type vset map[pt]bool

func setOfRuns(rs []run) (vset, int) {
	s := vset{}
	total := 0
	for _, r := range rs {
		for i := int32(0); i < r.n; i++ {
			s[pt{r.x + i, r.y, r.z}] = true
			total++
		}
	}
	return s, total
}

func toRLEs(rs []run) dvid.RLEs {
	out := make(dvid.RLEs, len(rs))
	for i, r := range rs {
		out[i] = dvid.NewRLE(dvid.Point3d{r.x, r.y, r.z}, r.n)
	}
	return out
}

func fromRLEs(rl dvid.RLEs) []run {
	out := make([]run, len(rl))
	for i, r := range rl {
		s := r.StartPt()
		out[i] = run{s[0], s[1], s[2], r.Length()}
	}
	return out
}

func setEq(a, b vset) bool {
	if len(a) != len(b) {
		return false
	}
	for k := range a {
		if !b[k] {
			return false
		}
	}
	return true
}

func diffDesc(got, want vset) string {
	var miss, extra []pt
	for k := range want {
		if !got[k] {
			miss = append(miss, k)
		}
	}
	for k := range got {
		if !want[k] {
			extra = append(extra, k)
		}
	}
	srt := func(v []pt) {
		sort.Slice(v, func(i, j int) bool { return cmpTuple(v[i], v[j]) < 0 })
	}
	srt(miss)
	srt(extra)
	tr := func(v []pt) string {
		if len(v) > 6 {
			return fmt.Sprintf("%v…(%d)", v[:6], len(v))
		}
		return fmt.Sprint(v)
	}
	return fmt.Sprintf("missing voxels %s, extra voxels %s", tr(miss), tr(extra))
}

func floorDiv(a, b int32) int32 {
	q := a / b
	if (a%b != 0) && ((a < 0) != (b < 0)) {
		q--
	}
	return q
}

// genRuns makes a set of non-overlapping runs (unsorted; with adjacent, single-voxel, long, negative, edge-aligned runs).
func genRuns(r *rand.Rand, bs [3]int32) []run {
	var rs []run
	rows := 1 + r.Intn(4)
	usedRow := map[[2]int32]bool{}
	for k := 0; k < rows; k++ {
		y, z := int32(r.Intn(9)-4), int32(r.Intn(9)-4)
		if r.Intn(5) == 0 { // rows exactly on block edges
			y = bs[1] * int32(r.Intn(3)-1)
			z = bs[2]*int32(r.Intn(3)-1) - int32(r.Intn(2))
		}
		if usedRow[[2]int32{y, z}] {
			continue
		}
		usedRow[[2]int32{y, z}] = true
		x := int32(r.Intn(60) - 70)
		nr := 1 + r.Intn(6)
		for j := 0; j < nr; j++ {
			var n int32
			switch r.Intn(5) {
			case 0:
				n = 1
			case 1:
				n = 1 + int32(r.Intn(5))
			case 2:
				n = bs[0]*int32(1+r.Intn(4)) + int32(r.Intn(3)) // crosses several blocks
			case 3: // ends exactly on a block edge
				end := (floorDiv(x, bs[0]) + 1 + int32(r.Intn(3))) * bs[0]
				n = end - x
			default:
				n = 1 + int32(r.Intn(40))
			}
			if r.Intn(6) == 0 { // starts exactly on a block edge
				x = (floorDiv(x, bs[0]) + 1) * bs[0]
			}
			// possibly cut into adjacent pieces (non-overlapping, must merge under Normalize)
			if n > 1 && r.Intn(3) == 0 {
				c := 1 + int32(r.Intn(int(n-1)))
				rs = append(rs, run{x, y, z, c}, run{x + c, y, z, n - c})
			} else {
				rs = append(rs, run{x, y, z, n})
			}
			x += n
			switch r.Intn(4) {
			case 0: // adjacent to the next run
			case 1:
				x++
			default:
				x += 2 + int32(r.Intn(20))
			}
		}
	}
	r.Shuffle(len(rs), func(i, j int) { rs[i], rs[j] = rs[j], rs[i] })
	if r.Intn(4) == 0 {
		sort.Slice(rs, func(i, j int) bool {
			return cmpTuple(pt{rs[i].x, rs[i].y, rs[i].z}, pt{rs[j].x, rs[j].y, rs[j].z}) < 0
		})
	}
	return rs
}

// subsetRuns picks a subset of the voxel set, expressed as non-overlapping runs inside the given runs.
func subsetRuns(r *rand.Rand, rs []run) []run {
	var out []run
	for _, q := range rs {
		switch r.Intn(6) {
		case 0: // whole run
			out = append(out, q)
		case 1: // prefix
			out = append(out, run{q.x, q.y, q.z, 1 + int32(r.Intn(int(q.n)))})
		case 2: // suffix
			k := 1 + int32(r.Intn(int(q.n)))
			out = append(out, run{q.x + q.n - k, q.y, q.z, k})
		case 3: // middle, possibly two pieces
			if q.n >= 3 {
				a := 1 + int32(r.Intn(int(q.n-2)))
				l := 1 + int32(r.Intn(int(q.n-a-1)))
				out = append(out, run{q.x + a, q.y, q.z, l})
				if rest := q.n - a - l; rest >= 3 && r.Intn(2) == 0 {
					out = append(out, run{q.x + a + l + 1, q.y, q.z, 1 + int32(r.Intn(int(rest-2)))})
				}
			}
		default: // nothing from this run
		}
	}
	r.Shuffle(len(out), func(i, j int) { out[i], out[j] = out[j], out[i] })
	return out
}

func runsKey(rs []run) string {
	var sb strings.Builder
	for _, q := range rs {
		fmt.Fprintf(&sb, "%d,%d,%d,%d;", q.x, q.y, q.z, q.n)
	}
	return sb.String()
}

func rleViolation(key, what string, w map[string]interface{}) {
	viol("rle:"+key, what, w)
}

func witness(rs []run, extra map[string]interface{}) map[string]interface{} {
	w := map[string]interface{}{"runs_x_y_z_len": rs}
	for k, v := range extra {
		w[k] = v
	}
	return w
}

func (r run) MarshalJSON() ([]byte, error) {
	return []byte(fmt.Sprintf("[%d,%d,%d,%d]", r.x, r.y, r.z, r.n)), nil
}

func rleCase(r *rand.Rand, i int) {
	bsChoices := []int32{1, 2, 3, 4, 5, 8, 16, 32}
	bs := [3]int32{bsChoices[r.Intn(len(bsChoices))], bsChoices[r.Intn(len(bsChoices))], bsChoices[r.Intn(len(bsChoices))]}
	rs := genRuns(r, bs)
	if len(rs) == 0 {
		return
	}
	set, total := setOfRuns(rs)
	if total != len(set) {
		panic("generator produced overlapping runs")
	}
	rk := runsKey(rs)
	desc := fmt.Sprintf("rle case #%d runs=%s bs=%v", i, rk, bs)
	p.Begin(desc)
	if i < 1 {
		p.Sample(map[string]interface{}{"section": "rle", "runs_x_y_z_len": rs, "block_size": bs, "voxels": len(set)})
	}

	// --- Normalize
	{
		in := toRLEs(rs)
		var out dvid.RLEs
		if pm := probe.Try(func() { out = in.Normalize() }); pm != "" {
			rleViolation("normalize:panic", desc+": Normalize panicked: "+pm, witness(rs, nil))
		} else {
			og := fromRLEs(out)
			oset, ototal := setOfRuns(og)
			p.Case("norm|"+rk, len(og) != len(rs) || runsKey(og) != rk)
			if !setEq(oset, set) {
				rleViolation("normalize:voxel-set-changed", fmt.Sprintf("%s: Normalize changed the voxel set (%d -> %d voxels): %s; result %v", desc, len(set), len(oset), diffDesc(oset, set), og), witness(rs, map[string]interface{}{"result": og}))
			} else if ototal != len(oset) {
				rleViolation("normalize:duplicate-voxels", fmt.Sprintf("%s: Normalize result covers voxels twice (%d run voxels for %d distinct)", desc, ototal, len(oset)), witness(rs, map[string]interface{}{"result": og}))
			}
			canonical := true
			for k := 1; k < len(og); k++ {
				a, b := og[k-1], og[k]
				if cmpTuple(pt{a.x, a.y, a.z}, pt{b.x, b.y, b.z}) >= 0 || (a.y == b.y && a.z == b.z && a.x+a.n == b.x) {
					canonical = false
				}
			}
			if !canonical {
				p.Count("notjudged_normalize_result_not_canonical", 1)
			}
			if runsKey(fromRLEs(in)) != rk {
				p.Count("notjudged_normalize_mutated_receiver", 1)
			}
		}
	}

	// --- Partition
	{
		in := toRLEs(rs)
		var br dvid.BlockRLEs
		var err error
		bsz := dvid.Point3d{bs[0], bs[1], bs[2]}
		if pm := probe.Try(func() { br, err = in.Partition(bsz) }); pm != "" {
			rleViolation("partition:panic", desc+": Partition panicked: "+pm, witness(rs, map[string]interface{}{"block_size": bs}))
		} else if err != nil {
			rleViolation("partition:error", desc+": Partition error: "+err.Error(), witness(rs, map[string]interface{}{"block_size": bs}))
		} else {
			union := vset{}
			utotal, frags := 0, 0
			wrongBlock := ""
			for k, rl := range br {
				bc, kerr := k.ToChunkPoint3d()
				if kerr != nil {
					wrongBlock = fmt.Sprintf("undecodable block key %x", string(k))
					continue
				}
				for _, q := range fromRLEs(rl) {
					frags++
					for j := int32(0); j < q.n; j++ {
						v := pt{q.x + j, q.y, q.z}
						union[v] = true
						utotal++
						if floorDiv(v[0], bs[0]) != bc[0] || floorDiv(v[1], bs[1]) != bc[1] || floorDiv(v[2], bs[2]) != bc[2] {
							if wrongBlock == "" {
								wrongBlock = fmt.Sprintf("voxel %v of fragment %v filed under block %v (block size %v)", v, q, bc, bs)
							}
						}
					}
				}
			}
			p.Case(fmt.Sprintf("part|%s|%v", rk, bs), frags > len(rs))
			cls := "positive"
			for _, q := range rs {
				if q.x < 0 || q.y < 0 || q.z < 0 {
					cls = "negative-coords"
				}
			}
			if !setEq(union, set) {
				rleViolation("partition:voxel-set-changed:"+cls, fmt.Sprintf("%s: Partition changed the voxel set (%d -> %d): %s", desc, len(set), len(union), diffDesc(union, set)), witness(rs, map[string]interface{}{"block_size": bs}))
			} else if utotal != len(union) {
				rleViolation("partition:duplicate-voxels:"+cls, fmt.Sprintf("%s: Partition fragments cover voxels twice (%d fragment voxels for %d distinct)", desc, utotal, len(union)), witness(rs, map[string]interface{}{"block_size": bs}))
			}
			if wrongBlock != "" {
				rleViolation("partition:wrong-block:"+cls, desc+": "+wrongBlock, witness(rs, map[string]interface{}{"block_size": bs}))
			}
			if nv := br.NumVoxels(); nv != uint64(utotal) {
				p.Count("notjudged_partition_NumVoxels_mismatch", 1)
			}
		}
	}

	// --- Split (subtraction of a subset)
	{
		sub := subsetRuns(r, rs)
		sset, stotal := setOfRuns(sub)
		if stotal != len(sset) {
			panic("subset generator produced overlapping runs")
		}
		want := vset{}
		for v := range set {
			if !sset[v] {
				want[v] = true
			}
		}
		in := toRLEs(rs)
		var out dvid.RLEs
		var err error
		if pm := probe.Try(func() { out, err = in.Split(toRLEs(sub)) }); pm != "" {
			rleViolation("split:panic", desc+": Split panicked: "+pm, witness(rs, map[string]interface{}{"subset": sub}))
		} else {
			p.Case("split|"+rk+"|"+runsKey(sub), len(sset) > 0 && len(want) > 0)
			if err != nil {
				rleViolation("split:error-on-subset", fmt.Sprintf("%s: Split of a genuine subset %v failed: %v", desc, sub, err), witness(rs, map[string]interface{}{"subset": sub}))
			} else {
				og := fromRLEs(out)
				oset, ototal := setOfRuns(og)
				if !setEq(oset, want) {
					rleViolation("split:voxel-set-wrong", fmt.Sprintf("%s: Split(subset %v) left %d voxels, expected %d: %s", desc, sub, len(oset), len(want), diffDesc(oset, want)), witness(rs, map[string]interface{}{"subset": sub, "result": og}))
				} else if ototal != len(oset) && len(sset) > 0 {
					rleViolation("split:duplicate-voxels", fmt.Sprintf("%s: Split result covers voxels twice", desc), witness(rs, map[string]interface{}{"subset": sub, "result": og}))
				}
			}
		}
	}

	// --- FitToBounds
	{
		var b dvid.OptionalBounds
		lim := [6]*int32{}
		mk := func(lo, hi int32) int32 { return lo + int32(r.Intn(int(hi-lo+1))) }
		bdesc := ""
		if r.Intn(12) != 0 {
			if r.Intn(2) == 0 {
				v := mk(-75, 40)
				lim[0] = &v
				b.SetMinX(v)
			}
			if r.Intn(2) == 0 {
				v := mk(-60, 80)
				if lim[0] != nil && r.Intn(3) > 0 && v < *lim[0] {
					v = *lim[0] + int32(r.Intn(30))
				}
				lim[1] = &v
				b.SetMaxX(v)
			}
			if r.Intn(3) == 0 {
				v := mk(-5, 4)
				lim[2] = &v
				b.SetMinY(v)
			}
			if r.Intn(3) == 0 {
				v := mk(-4, 5)
				lim[3] = &v
				b.SetMaxY(v)
			}
			if r.Intn(3) == 0 {
				v := mk(-5, 4)
				lim[4] = &v
				b.SetMinZ(v)
			}
			if r.Intn(3) == 0 {
				v := mk(-4, 5)
				lim[5] = &v
				b.SetMaxZ(v)
			}
		}
		for k, l := range lim {
			if l != nil {
				bdesc += fmt.Sprintf("%s=%d ", []string{"minx", "maxx", "miny", "maxy", "minz", "maxz"}[k], *l)
			}
		}
		want := vset{}
		for v := range set {
			ok := true
			for d := 0; d < 3; d++ {
				if lim[2*d] != nil && v[d] < *lim[2*d] {
					ok = false
				}
				if lim[2*d+1] != nil && v[d] > *lim[2*d+1] {
					ok = false
				}
			}
			if ok {
				want[v] = true
			}
		}
		in := toRLEs(rs)
		var out dvid.RLEs
		if pm := probe.Try(func() { out = in.FitToBounds(&b) }); pm != "" {
			rleViolation("fit:panic", desc+": FitToBounds panicked: "+pm, witness(rs, map[string]interface{}{"bounds": bdesc}))
		} else {
			og := fromRLEs(out)
			oset, _ := setOfRuns(og)
			p.Case("fit|"+rk+"|"+bdesc, len(want) > 0 && len(want) < len(set))
			if !setEq(oset, want) {
				rleViolation("fit:voxel-set-wrong", fmt.Sprintf("%s: FitToBounds(%s) kept %d voxels, expected %d: %s", desc, bdesc, len(oset), len(want), diffDesc(oset, want)), witness(rs, map[string]interface{}{"bounds": bdesc, "result": og}))
			}
			if runsKey(fromRLEs(in)) != rk {
				p.Count("notjudged_fit_mutated_receiver", 1)
			}
		}
		// "no bounds" given as a nil pointer (the function has an explicit branch for it)
		if i%8 == 0 {
			var outn dvid.RLEs
			if pm := probe.Try(func() { outn = in.FitToBounds(nil) }); pm != "" {
				rleViolation("fit:panic", desc+": FitToBounds(nil) panicked: "+pm, witness(rs, nil))
			} else {
				oset, _ := setOfRuns(fromRLEs(outn))
				p.Case("fitnil|"+rk, true)
				if !setEq(oset, set) {
					rleViolation("fit:nil-bounds-drops-all-runs", fmt.Sprintf("%s: FitToBounds(nil) (no bounds at all) returned %d runs / %d voxels, expected all %d voxels", desc, len(outn), len(oset), len(set)), witness(rs, map[string]interface{}{"bounds": nil}))
				}
			}
		}
	}

	// --- Add (union of two volumes, each non-overlapping in itself, overlapping each other)
	{
		other := genRuns(r, bs)
		if r.Intn(2) == 0 { // make sure there is real overlap: reuse parts of the receiver
			other = append(subsetRuns(r, rs), run{-200, 0, 0, 3})
		}
		oset, ototal := setOfRuns(other)
		if ototal == len(oset) {
			want := vset{}
			inter := 0
			for v := range set {
				want[v] = true
			}
			for v := range oset {
				if want[v] {
					inter++
				}
				want[v] = true
			}
			recv := toRLEs(rs)
			var added int64
			if pm := probe.Try(func() { added = recv.Add(toRLEs(other)) }); pm != "" {
				rleViolation("add:panic", desc+": Add panicked: "+pm, witness(rs, map[string]interface{}{"added": other}))
			} else {
				got, _ := setOfRuns(fromRLEs(recv))
				p.Case("add|"+rk+"|"+runsKey(other), inter > 0)
				if !setEq(got, want) {
					rleViolation("add:voxel-set-wrong", fmt.Sprintf("%s: Add(%v) gives %d voxels, expected union of %d: %s", desc, other, len(got), len(want), diffDesc(got, want)), witness(rs, map[string]interface{}{"added": other, "result": fromRLEs(recv)}))
				}
				if added != int64(len(want)-len(set)) {
					p.Count("notjudged_add_voxelsAdded_differs_from_new_voxels", 1)
				}
			}
		}
	}

	// --- binary forms
	{
		in := toRLEs(rs)
		b, err := in.MarshalBinary()
		p.Case("bin|"+rk, len(rs) > 1)
		if err != nil || len(b) != 16*len(rs) {
			rleViolation("binary:marshal", fmt.Sprintf("%s: MarshalBinary err=%v len=%d", desc, err, len(b)), witness(rs, nil))
		} else {
			// the documented layout: x, y, z, length as little-endian int32
			for k, q := range rs {
				for f, v := range []int32{q.x, q.y, q.z, q.n} {
					if int32(binary.LittleEndian.Uint32(b[16*k+4*f:])) != v {
						rleViolation("binary:layout", fmt.Sprintf("%s: MarshalBinary run %d field %d is not little-endian int32 of %d", desc, k, f, v), witness(rs, nil))
					}
				}
			}
			var back dvid.RLEs
			if pm := probe.Try(func() { err = back.UnmarshalBinary(b) }); pm != "" || err != nil || runsKey(fromRLEs(back)) != rk {
				rleViolation("binary:roundtrip", fmt.Sprintf("%s: UnmarshalBinary(MarshalBinary) = %v err=%v panic=%q", desc, fromRLEs(back), err, pm), witness(rs, nil))
			}
			var back2 dvid.RLEs
			if pm := probe.Try(func() { err = back2.UnmarshalBinaryReader(bytes.NewReader(b), uint32(len(rs))) }); pm != "" || err != nil || runsKey(fromRLEs(back2)) != rk {
				rleViolation("binary:reader-roundtrip", fmt.Sprintf("%s: UnmarshalBinaryReader = %v err=%v panic=%q", desc, fromRLEs(back2), err, pm), witness(rs, nil))
			}
			// the sparse-volume stream as the label types write it: 8 header bytes, #spans, runs
			var st bytes.Buffer
			st.WriteByte(dvid.EncodingBinary)
			st.Write([]byte{3, 0, 0})
			binary.Write(&st, binary.LittleEndian, uint32(0))
			binary.Write(&st, binary.LittleEndian, uint32(len(rs)))
			st.Write(b)
			var rd dvid.RLEs
			if pm := probe.Try(func() { rd, err = dvid.ReadRLEs(bytes.NewReader(st.Bytes())) }); pm != "" || err != nil || runsKey(fromRLEs(rd)) != rk {
				rleViolation("binary:ReadRLEs", fmt.Sprintf("%s: ReadRLEs = %v err=%v panic=%q", desc, fromRLEs(rd), err, pm), witness(rs, nil))
			}
			// SparseVol built from the same bytes: voxel count and bounding box
			var sv dvid.SparseVol
			if pm := probe.Try(func() { err = sv.AddSerializedRLEs(b) }); pm != "" || err != nil {
				rleViolation("binary:SparseVol", fmt.Sprintf("%s: AddSerializedRLEs err=%v panic=%q", desc, err, pm), witness(rs, nil))
			} else {
				mn, mx := pt{math.MaxInt32, math.MaxInt32, math.MaxInt32}, pt{math.MinInt32, math.MinInt32, math.MinInt32}
				for v := range set {
					for d := 0; d < 3; d++ {
						if v[d] < mn[d] {
							mn[d] = v[d]
						}
						if v[d] > mx[d] {
							mx[d] = v[d]
						}
					}
				}
				gmn, gmx := sv.MinimumPoint3d(), sv.MaximumPoint3d()
				svs, _ := setOfRuns(fromRLEs(sv.RLEs()))
				if sv.NumVoxels() != uint64(len(set)) || pt(gmn) != mn || pt(gmx) != mx || !setEq(svs, set) {
					rleViolation("binary:SparseVol", fmt.Sprintf("%s: SparseVol from serialized runs: %d voxels bbox %v-%v, expected %d voxels bbox %v-%v", desc, sv.NumVoxels(), gmn, gmx, len(set), mn, mx), witness(rs, nil))
				}
			}
			// truncated streams: never a crash (outcome not judged)
			if i%16 == 0 {
				full := st.Bytes()
				for cut := 0; cut < len(full); cut += 1 + r.Intn(7) {
					if pm := probe.Try(func() { dvid.ReadRLEs(bytes.NewReader(full[:cut])) }); pm != "" {
						rleViolation("binary:ReadRLEs-truncated-panic", fmt.Sprintf("%s: ReadRLEs on a stream cut at %d of %d bytes panicked: %s", desc, cut, len(full), pm), witness(rs, nil))
					}
					p.Count("readrles_truncated_nocrash_only", 1)
				}
			}
		}
	}

	// --- single runs: Excise / Intersects / Within / binary
	{
		a := rs[r.Intn(len(rs))]
		bx := a.x - 6 + int32(r.Intn(int(a.n)+12))
		b := run{bx, a.y, a.z, 1 + int32(r.Intn(int(a.n)+6))}
		if r.Intn(8) == 0 {
			b.y++
		}
		ra := dvid.NewRLE(dvid.Point3d{a.x, a.y, a.z}, a.n)
		rb := dvid.NewRLE(dvid.Point3d{b.x, b.y, b.z}, b.n)
		sa, _ := setOfRuns([]run{a})
		sb, _ := setOfRuns([]run{b})
		inter := false
		want := vset{}
		for v := range sa {
			if sb[v] {
				inter = true
			} else {
				want[v] = true
			}
		}
		p.Case(fmt.Sprintf("excise|%v|%v", a, b), inter)
		if ra.Intersects(rb) != inter {
			rleViolation("run:intersects", fmt.Sprintf("run %v Intersects %v = %v, voxel sets say %v", a, b, !inter, inter), map[string]interface{}{"a": a, "b": b})
		}
		fr := ra.Excise(rb)
		if !inter {
			if fr != nil {
				rleViolation("run:excise", fmt.Sprintf("run %v Excise %v (disjoint) returned %v, documented nil", a, b, fromRLEs(fr)), map[string]interface{}{"a": a, "b": b})
			}
		} else {
			got, gt := setOfRuns(fromRLEs(fr))
			if fr == nil || !setEq(got, want) || gt != len(got) {
				rleViolation("run:excise", fmt.Sprintf("run %v Excise %v = %v: %s", a, b, fromRLEs(fr), diffDesc(got, want)), map[string]interface{}{"a": a, "b": b})
			}
		}
		for k := 0; k < 4; k++ {
			v := pt{a.x - 2 + int32(r.Intn(int(a.n)+4)), a.y, a.z}
			if k == 3 {
				v[1+r.Intn(2)]++
			}
			if ra.Within(dvid.Point3d{v[0], v[1], v[2]}) != sa[v] {
				rleViolation("run:within", fmt.Sprintf("run %v Within %v = %v", a, v, !sa[v]), map[string]interface{}{"a": a, "pt": v})
			}
		}
		mb, _ := ra.MarshalBinary()
		var bk dvid.RLE
		if err := bk.UnmarshalBinary(mb); err != nil || bk != ra {
			rleViolation("run:binary", fmt.Sprintf("run %v binary round trip gives %v err=%v", a, bk, err), map[string]interface{}{"a": a})
		}
		var wb bytes.Buffer
		ra.WriteTo(&wb)
		if !bytes.Equal(wb.Bytes(), mb) {
			rleViolation("run:binary", fmt.Sprintf("run %v WriteTo and MarshalBinary differ", a), map[string]interface{}{"a": a})
		}
	}
}

// overlapCase: overlapping / degenerate run sets, every operation, crash-freedom only.
func overlapCase(r *rand.Rand, i int) {
	n := 1 + r.Intn(8)
	rs := make([]run, n)
	for k := range rs {
		rs[k] = run{int32(r.Intn(40) - 20), int32(r.Intn(3) - 1), int32(r.Intn(2)), int32(r.Intn(25))}
		if r.Intn(10) == 0 {
			rs[k].n = -int32(r.Intn(3))
		}
	}
	desc := fmt.Sprintf("overlap case #%d runs=%s", i, runsKey(rs))
	p.Begin(desc)
	p.Case("ovl|"+runsKey(rs), false)
	p.Count("rle_overlapping_nocrash_only", 1)
	in := toRLEs(rs)
	other := toRLEs([]run{{int32(r.Intn(40) - 20), 0, 0, 1 + int32(r.Intn(30))}, {int32(r.Intn(40) - 20), 0, 0, 1 + int32(r.Intn(30))}})
	var b dvid.OptionalBounds
	b.SetMinX(-5)
	b.SetMaxX(7)
	ops := map[string]func(){
		"Normalize":   func() { in.Normalize() },
		"Partition":   func() { in.Partition(dvid.Point3d{4, 2, 1}) },
		"Split":       func() { in.Split(other) },
		"FitToBounds": func() { in.FitToBounds(&b) },
		"Add":         func() { c := append(dvid.RLEs{}, in...); c.Add(other) },
		"Marshal":     func() { bb, _ := in.MarshalBinary(); var x dvid.RLEs; x.UnmarshalBinary(bb) },
		"Stats":       func() { in.Stats() },
	}
	names := []string{"Normalize", "Partition", "Split", "FitToBounds", "Add", "Marshal", "Stats"}
	for _, nm := range names {
		if pm := probe.Try(ops[nm]); pm != "" {
			rleViolation("overlapping:panic:"+nm, fmt.Sprintf("%s: %s panicked on overlapping/degenerate runs: %s", desc, nm, pm), witness(rs, nil))
		}
	}
}

// manyRunsCase: a sparse volume is as long as its body is ragged - tens of thousands of runs are ordinary.  The
// streamed readers must hand back every run of a stream of n runs, for n around the sizes at which an implementation
// could start to allocate or read in pieces.
func manyRunsCase(n int) {
	b := make([]byte, 16*n)
	for i := 0; i < n; i++ {
		x, y, z, l := int32(3*(i%700))-1000, int32((i/700)%900)-7, int32(i/(700*900))+5, int32(1+i%2)
		for f, v := range []int32{x, y, z, l} {
			binary.LittleEndian.PutUint32(b[16*i+4*f:], uint32(v))
		}
	}
	desc := fmt.Sprintf("stream of %d runs", n)
	p.Begin(desc)
	same := func(rl dvid.RLEs) string {
		if len(rl) != n {
			return fmt.Sprintf("%d runs read back", len(rl))
		}
		out, err := rl.MarshalBinary()
		if err != nil || !bytes.Equal(out, b) {
			return fmt.Sprintf("the %d runs read back differ from the stream (err=%v)", len(rl), err)
		}
		return ""
	}
	var back dvid.RLEs
	var err error
	p.Case(fmt.Sprintf("manyruns|reader|%d", n), true)
	if pm := probe.Try(func() { err = back.UnmarshalBinaryReader(bytes.NewReader(b), uint32(n)) }); pm != "" || err != nil {
		rleViolation("binary:reader-roundtrip:many-runs", fmt.Sprintf("%s: UnmarshalBinaryReader err=%v panic=%q", desc, err, pm), map[string]interface{}{"runs": n})
	} else if d := same(back); d != "" {
		rleViolation("binary:reader-roundtrip:many-runs", fmt.Sprintf("%s: UnmarshalBinaryReader: %s, no error", desc, d), map[string]interface{}{"runs": n})
	}
	var st bytes.Buffer
	st.WriteByte(dvid.EncodingBinary)
	st.Write([]byte{3, 0, 0})
	binary.Write(&st, binary.LittleEndian, uint32(0))
	binary.Write(&st, binary.LittleEndian, uint32(n))
	st.Write(b)
	var rd dvid.RLEs
	p.Case(fmt.Sprintf("manyruns|ReadRLEs|%d", n), true)
	if pm := probe.Try(func() { rd, err = dvid.ReadRLEs(bytes.NewReader(st.Bytes())) }); pm != "" || err != nil {
		rleViolation("binary:ReadRLEs:many-runs", fmt.Sprintf("%s: ReadRLEs err=%v panic=%q", desc, err, pm), map[string]interface{}{"runs": n})
	} else if d := same(rd); d != "" {
		rleViolation("binary:ReadRLEs:many-runs", fmt.Sprintf("%s: ReadRLEs: %s, no error", desc, d), map[string]interface{}{"runs": n})
	}
	var whole dvid.RLEs
	p.Case(fmt.Sprintf("manyruns|UnmarshalBinary|%d", n), true)
	if pm := probe.Try(func() { err = whole.UnmarshalBinary(b) }); pm != "" || err != nil {
		rleViolation("binary:roundtrip:many-runs", fmt.Sprintf("%s: UnmarshalBinary err=%v panic=%q", desc, err, pm), map[string]interface{}{"runs": n})
	} else if d := same(whole); d != "" {
		rleViolation("binary:roundtrip:many-runs", fmt.Sprintf("%s: UnmarshalBinary: %s, no error", desc, d), map[string]interface{}{"runs": n})
	}
	p.Count("many_run_streams", 1)
}

func sectionRLE() {
	for _, n := range []int{4095, 4096, 4097, 65535, 65536, 65537, 100003} {
		manyRunsCase(n)
	}
	if !p.Quick() {
		for _, n := range []int{1<<17 + 1, 1 << 20, 1<<20 + 1} {
			manyRunsCase(n)
		}
	}
	r := rand.New(rand.NewSource(p.Seed*11 + 3))
	n := p.N(6000, 200000)
	for i := 0; i < n; i++ {
		rleCase(r, i)
	}
	p.Count("rle_cases", n)
	m := p.N(400, 20000)
	for i := 0; i < m; i++ {
		overlapCase(r, i)
	}
}

// ---------------------------------------------------------------------------------------
// roi.VoxelBoundsInside (package-level function; the HTTP side is checked by the driver)

func sectionROIFn() {
	r := rand.New(rand.NewSource(p.Seed*11 + 4))
	n := p.N(10000, 200000)
	for i := 0; i < n; i++ {
		bsv := []int32{4, 8, 16, 32}[r.Intn(4)]
		bs := dvid.Point3d{bsv, bsv, bsv}
		if r.Intn(3) == 0 {
			bs = dvid.Point3d{[]int32{4, 8, 16, 32}[r.Intn(4)], []int32{4, 8, 16, 32}[r.Intn(4)], []int32{4, 8, 16, 32}[r.Intn(4)]}
		}
		ns := r.Intn(7)
		spans := make([]dvid.Span, ns)
		blocks := map[pt]bool{}
		for k := range spans {
			z, y := int32(r.Intn(7)-3), int32(r.Intn(7)-3)
			x0 := int32(r.Intn(11) - 5)
			x1 := x0 + int32(r.Intn(4))
			spans[k] = dvid.Span{z, y, x0, x1}
			for x := x0; x <= x1; x++ {
				blocks[pt{x, y, z}] = true
			}
		}
		// GetSpans hands them out sorted by z, y, x0 (then length)
		sort.Slice(spans, func(a, b int) bool { return spans[a].Less(spans[b]) })
		var e dvid.Extents3d
		for d := 0; d < 3; d++ {
			lo := int32(r.Intn(int(bs[d])*10) - int(bs[d])*5)
			hi := lo + int32(r.Intn(int(bs[d])*3))
			if r.Intn(4) == 0 {
				hi = lo
			}
			if r.Intn(5) == 0 { // exactly on block edges
				lo = floorDiv(lo, bs[d]) * bs[d]
				hi = lo + bs[d] - 1
			}
			e.MinPoint[d], e.MaxPoint[d] = lo, hi
		}
		want := false
		for b := range blocks {
			hit := true
			for d := 0; d < 3; d++ {
				lo, hi := b[d]*bs[d], (b[d]+1)*bs[d]-1
				if hi < e.MinPoint[d] || lo > e.MaxPoint[d] {
					hit = false
				}
			}
			if hit {
				want = true
			}
		}
		desc := fmt.Sprintf("VoxelBoundsInside extents=%v-%v bs=%v spans=%v", e.MinPoint, e.MaxPoint, bs, spans)
		p.Begin(desc)
		var got bool
		var err error
		if pm := probe.Try(func() { got, err = roi.VoxelBoundsInside(e, bs, spans) }); pm != "" {
			viol("roi:VoxelBoundsInside:panic", desc+": panicked: "+pm, map[string]interface{}{"case": desc})
			continue
		}
		p.Case("vbi|"+desc, ns > 0)
		if err != nil || got != want {
			cls := "positive"
			for d := 0; d < 3; d++ {
				if e.MinPoint[d] < 0 {
					cls = "negative-coords"
				}
			}
			viol("roi:VoxelBoundsInside:"+cls, fmt.Sprintf("%s: returned %v err=%v, block model says %v", desc, got, err, want), map[string]interface{}{"case": desc})
		}
		if i == 0 {
			p.Sample(map[string]interface{}{"section": "roifn", "case": desc, "intersects": want})
		}
	}
}

func main() {
	p = probe.New()
	switch *section {
	case "keys":
		sectionKeys()
	case "packed":
		sectionPacked()
	case "rle":
		sectionRLE()
	case "roifn":
		sectionROIFn()
	default:
		sectionKeys()
		sectionPacked()
		sectionRLE()
		sectionROIFn()
	}
	flushViolations()
	p.Done()
}
